package c46

import (
	"fmt"
	"math"
	"time"

	"github.com/cockroachdb/pebble"
	"github.com/cockroachdb/pebble/cockroachkvs"
	"github.com/cockroachdb/pebble/internal/manifest"
	"github.com/cockroachdb/pebble/internal/testkeys"
	"github.com/cockroachdb/pebble/objstorage/remote"
	"github.com/cockroachdb/pebble/sstable"
	"github.com/cockroachdb/pebble/sstable/block"
	"github.com/cockroachdb/pebble/sstable/colblk"
	"github.com/cockroachdb/pebble/sstable/tablefilters/binaryfuse"
	"github.com/cockroachdb/pebble/sstable/tablefilters/bloom"
	"github.com/cockroachdb/pebble/vfs"
	"github.com/cockroachdb/pebble/wal"
)

// build is the Options under construction. Deviations are applied to a zero Options; EnsureDefaults
// runs afterwards (the order a Pebble user follows).
type build struct {
	o     *pebble.Options
	vs    *pebble.ValueSeparationPolicy // nil: leave Options.ValueSeparationPolicy unset
	close []func()
}

type alt struct {
	name  string
	apply func(b *build)
	// edge alternatives are evaluated as single deviations only (extreme values whose outcome would
	// otherwise repeat in every combination).
	edge bool
}

type field struct {
	name string // the key(s) of Options.String this field feeds
	alts []alt
}

var memFS = vfs.NewMem()

// User-defined implementations that only the ParseHooks can resolve.
type verifCleaner struct{ pebble.DeleteCleaner }

func (verifCleaner) String() string { return "verif-cleaner" }

var (
	verifComparer = func() *pebble.Comparer {
		c := *pebble.DefaultComparer
		c.Name = "verif.comparer-v1"
		return &c
	}()
	verifMerger = func() *pebble.Merger {
		m := *pebble.DefaultMerger
		m.Name = "verif.merger"
		return &m
	}()
	verifMerger2 = func() *pebble.Merger {
		m := *pebble.DefaultMerger
		m.Name = "verif merger=v2 [x]"
		return &m
	}()
	ks8   = colblk.DefaultKeySchema(pebble.DefaultComparer, 8)
	ksTK  = colblk.DefaultKeySchema(testkeys.Comparer, 16)
	ksCRL = cockroachkvs.KeySchema
)

// defaultVS is the policy EnsureDefaults installs (read from Pebble, not copied).
var defaultVS = func() pebble.ValueSeparationPolicy {
	o := &pebble.Options{FS: memFS}
	o.EnsureDefaults()
	return o.ValueSeparationPolicy()
}()

func (b *build) vsp() *pebble.ValueSeparationPolicy {
	if b.vs == nil {
		p := defaultVS
		b.vs = &p
	}
	return b.vs
}

func (b *build) failover() *pebble.WALFailoverOptions {
	if b.o.WALFailover == nil {
		b.o.WALFailover = &pebble.WALFailoverOptions{Secondary: wal.Dir{Dirname: "wal-secondary", FS: memFS}}
	}
	return b.o.WALFailover
}

func scalar[T any](name string, set func(o *pebble.Options, v T), vals ...T) field {
	f := field{name: name}
	for _, v := range vals {
		v := v
		f.alts = append(f.alts, alt{name: fmt.Sprint(v), apply: func(b *build) { set(b.o, v) }})
	}
	return f
}

func edge(f field, name string, apply func(b *build)) field {
	f.alts = append(f.alts, alt{name: name, apply: apply, edge: true})
	return f
}

func fields() []field {
	var fs []field
	add := func(f field) { fs = append(fs, f) }

	// ---- [Options] ----
	add(scalar("bytes_per_sync", func(o *pebble.Options, v int) { o.BytesPerSync = v }, 1, 1<<20))
	add(field{"cache_size", []alt{
		{name: "CacheSize=1", apply: func(b *build) { b.o.CacheSize = 1 }},
		{name: "CacheSize=1<<40", apply: func(b *build) { b.o.CacheSize = 1 << 40 }},
		{name: "Cache=NewCache(3MiB)", apply: func(b *build) {
			c := pebble.NewCache(3 << 20)
			b.o.Cache = c
			b.close = append(b.close, c.Unref)
		}},
	}})
	add(field{"cleaner", []alt{
		{name: "archive", apply: func(b *build) { b.o.Cleaner = pebble.ArchiveCleaner{} }},
		{name: "verif-cleaner(hook)", apply: func(b *build) { b.o.Cleaner = verifCleaner{} }},
	}})
	add(edge(scalar("compaction_debt_concurrency", func(o *pebble.Options, v uint64) { o.CompactionDebtConcurrency = v }, 1, 1<<40),
		"MaxUint64", func(b *build) { b.o.CompactionDebtConcurrency = math.MaxUint64 }))
	add(scalar("compaction_garbage_fraction_for_max_concurrency", func(o *pebble.Options, v float64) {
		o.CompactionGarbageFractionForMaxConcurrency = func() float64 { return v }
	}, 0.0, 0.125, 1.0))
	add(field{"comparer", []alt{
		{name: "testkeys", apply: func(b *build) { b.o.Comparer = testkeys.Comparer }},
		{name: "cockroachkvs(hook)", apply: func(b *build) { b.o.Comparer = &cockroachkvs.Comparer }},
		{name: "verif.comparer-v1(hook)", apply: func(b *build) { b.o.Comparer = verifComparer }},
	}})
	add(scalar("disable_wal", func(o *pebble.Options, v bool) { o.DisableWAL = v }, true))
	add(scalar("disable_ingest_as_flushable", func(o *pebble.Options, v bool) {
		o.DisableIngestAsFlushable = func() bool { return v }
	}, true, false))
	add(scalar("flush_delay_delete_range", func(o *pebble.Options, v time.Duration) { o.FlushDelayDeleteRange = v },
		10*time.Second, time.Nanosecond, 90*time.Minute+500*time.Millisecond))
	add(scalar("flush_delay_range_key", func(o *pebble.Options, v time.Duration) { o.FlushDelayRangeKey = v },
		11*time.Second, time.Millisecond))
	add(scalar("flush_split_bytes", func(o *pebble.Options, v int64) { o.FlushSplitBytes = v }, 1, 1<<40))
	add(edge(scalar("format_major_version", func(o *pebble.Options, v pebble.FormatMajorVersion) { o.FormatMajorVersion = v },
		pebble.FormatVirtualSSTables, pebble.FormatColumnarBlocks, pebble.FormatNewest),
		"internalFormatNewest", func(b *build) { b.o.FormatMajorVersion = pebble.VerifC46InternalFormatNewest() }))
	add(field{"key_schema", []alt{
		{name: ks8.Name, apply: func(b *build) { b.o.KeySchema = ks8.Name; b.o.KeySchemas = sstable.MakeKeySchemas(&ks8) }},
		{name: ksTK.Name, apply: func(b *build) { b.o.KeySchema = ksTK.Name; b.o.KeySchemas = sstable.MakeKeySchemas(&ksTK) }},
		{name: ksCRL.Name + "(hook)", apply: func(b *build) { b.o.KeySchema = ksCRL.Name; b.o.KeySchemas = sstable.MakeKeySchemas(&ksCRL) }},
	}})
	add(scalar("l0_compaction_concurrency", func(o *pebble.Options, v int) { o.L0CompactionConcurrency = v }, 1, 100))
	add(scalar("l0_compaction_file_threshold", func(o *pebble.Options, v int) { o.L0CompactionFileThreshold = v }, 1, 100000))
	add(scalar("l0_compaction_threshold", func(o *pebble.Options, v int) { o.L0CompactionThreshold = v }, 1, 8))
	add(scalar("l0_stop_writes_threshold", func(o *pebble.Options, v int) { o.L0StopWritesThreshold = v }, 4, 1000))
	add(edge(scalar("lbase_max_bytes", func(o *pebble.Options, v int64) { o.LBaseMaxBytes = v }, 1, 1<<40),
		"MaxInt64", func(b *build) { b.o.LBaseMaxBytes = math.MaxInt64 }))
	add(scalar("level_multiplier", func(o *pebble.Options, v int) { o.LevelMultiplier = v }, 2, 5))
	add(field{"concurrent_compactions+max_concurrent_compactions", []alt{
		{name: "(2,4)", apply: func(b *build) { b.o.CompactionConcurrencyRange = func() (int, int) { return 2, 4 } }},
		{name: "(3,3)", apply: func(b *build) { b.o.CompactionConcurrencyRange = func() (int, int) { return 3, 3 } }},
	}})
	add(scalar("max_concurrent_downloads", func(o *pebble.Options, v int) {
		o.MaxConcurrentDownloads = func() int { return v }
	}, 2, 64))
	add(scalar("max_manifest_file_size", func(o *pebble.Options, v int64) { o.MaxManifestFileSize = v }, 1, 1<<40))
	add(scalar("max_open_files", func(o *pebble.Options, v int) { o.MaxOpenFiles = v }, 1, 50000))
	add(scalar("mem_table_size", func(o *pebble.Options, v uint64) { o.MemTableSize = v }, 1<<10, 256<<20))
	add(scalar("mem_table_stop_writes_threshold", func(o *pebble.Options, v int) { o.MemTableStopWritesThreshold = v }, 3, 100))
	add(edge(scalar("min_deletion_rate", func(o *pebble.Options, v uint64) {
		o.DeletionPacing.BaselineRate = func() uint64 { return v }
	}, 1, 1<<40), "MaxUint64", func(b *build) { b.o.DeletionPacing.BaselineRate = func() uint64 { return math.MaxUint64 } }))
	add(edge(scalar("free_space_threshold_bytes", func(o *pebble.Options, v uint64) { o.DeletionPacing.FreeSpaceThresholdBytes = v }, 1, 1<<50),
		"MaxUint64", func(b *build) { b.o.DeletionPacing.FreeSpaceThresholdBytes = math.MaxUint64 }))
	add(scalar("free_space_timeframe", func(o *pebble.Options, v time.Duration) { o.DeletionPacing.FreeSpaceTimeframe = v }, time.Nanosecond, time.Hour))
	add(scalar("obsolete_bytes_timeframe", func(o *pebble.Options, v time.Duration) { o.DeletionPacing.BacklogTimeframe = v }, time.Second, 24*time.Hour))
	add(field{"merger", []alt{
		{name: verifMerger.Name + "(hook)", apply: func(b *build) { b.o.Merger = verifMerger }},
		{name: verifMerger2.Name + "(hook)", apply: func(b *build) { b.o.Merger = verifMerger2 }},
	}})
	wamp := func(p float64, l0 bool) alt {
		return alt{name: fmt.Sprintf("wamp(%v,%v)", p, l0), apply: func(b *build) {
			b.o.MultiLevelCompactionHeuristic = func() pebble.MultiLevelHeuristic {
				return &pebble.WriteAmpHeuristic{AddPropensity: p, AllowL0: l0}
			}
		}}
	}
	add(field{"multilevel_compaction_heuristic", []alt{
		{name: "none", apply: func(b *build) { b.o.MultiLevelCompactionHeuristic = pebble.OptionNoMultiLevel }},
		wamp(0.5, true), wamp(0.25, false), wamp(0, true),
	}})
	add(edge(scalar("read_compaction_rate", func(o *pebble.Options, v int64) { o.ReadCompactionRate = v }, 1, 1<<40),
		"-5", func(b *build) { b.o.ReadCompactionRate = -5 }))
	add(scalar("read_sampling_multiplier", func(o *pebble.Options, v int64) { o.ReadSamplingMultiplier = v }, -1, 1<<20))
	add(scalar("num_deletions_threshold", func(o *pebble.Options, v int) { o.NumDeletionsThreshold = v }, 1, 1000000))
	add(edge(scalar("deletion_size_ratio_threshold", func(o *pebble.Options, v float32) { o.DeletionSizeRatioThreshold = v }, 0.25, 0.9),
		"1e-7", func(b *build) { b.o.DeletionSizeRatioThreshold = 1e-7 }))
	add(edge(scalar("tombstone_dense_compaction_threshold", func(o *pebble.Options, v float64) {
		o.TombstoneDenseCompactionThreshold = func() float64 { return v }
	}, 0.0, 0.5, -1.0), "1e-7", func(b *build) { b.o.TombstoneDenseCompactionThreshold = func() float64 { return 1e-7 } }))
	add(scalar("table_cache_shards", func(o *pebble.Options, v int) { o.FileCacheShards = v }, 1, 64))
	add(scalar("validate_on_ingest", func(o *pebble.Options, v bool) { o.ValidateOnIngest = v }, true))
	add(scalar("wal_dir", func(o *pebble.Options, v string) { o.WALDir = v }, "wal", "/abs/wal dir=x", "{store_path}/wal"))
	add(scalar("wal_bytes_per_sync", func(o *pebble.Options, v int) { o.WALBytesPerSync = v }, 1, 1<<20))
	add(scalar("secondary_cache_size_bytes", func(o *pebble.Options, v int64) { o.SecondaryCacheSizeBytes = v }, 1, 1<<40))
	add(scalar("create_on_shared", func(o *pebble.Options, v remote.CreateOnSharedStrategy) { o.CreateOnShared = v },
		remote.CreateOnSharedLower, remote.CreateOnSharedAll))
	add(scalar("iterator_tracking_poll_interval", func(o *pebble.Options, v time.Duration) { o.IteratorTracking.PollInterval = v }, time.Second, time.Millisecond))
	add(scalar("iterator_tracking_max_age", func(o *pebble.Options, v time.Duration) { o.IteratorTracking.MaxAge = v }, time.Minute, time.Hour))
	priv := func(name string, i int) field {
		return field{name, []alt{{name: "true", apply: func(b *build) {
			v := [3]bool{}
			v[0], v[1], v[2] = pebble.VerifC46GetPrivate(b.o)
			v[i] = true
			pebble.VerifC46SetPrivate(b.o, v[0], v[1], v[2])
		}}}}
	}
	add(priv("disable_delete_only_compactions", 0))
	add(priv("disable_elision_only_compactions", 1))
	add(priv("disable_lazy_combined_iteration", 2))

	// ---- [Value Separation] ----
	add(field{"vs.enabled", []alt{{name: "false", apply: func(b *build) { b.vsp().Enabled = false }}}})
	vsf := func(name string, set func(p *pebble.ValueSeparationPolicy, i int), n int, names ...string) {
		f := field{name: "vs." + name}
		for i := 0; i < n; i++ {
			i := i
			f.alts = append(f.alts, alt{name: names[i], apply: func(b *build) { set(b.vsp(), i) }})
		}
		add(f)
	}
	vsf("minimum_size", func(p *pebble.ValueSeparationPolicy, i int) { p.MinimumSize = []int{1, 1 << 20}[i] }, 2, "1", "1<<20")
	vsf("minimum_mvcc_garbage_size", func(p *pebble.ValueSeparationPolicy, i int) { p.MinimumMVCCGarbageSize = []int{1, 4096}[i] }, 2, "1", "4096")
	vsf("max_blob_reference_depth", func(p *pebble.ValueSeparationPolicy, i int) { p.MaxBlobReferenceDepth = []int{1, 1000}[i] }, 2, "1", "1000")
	vsf("rewrite_minimum_age", func(p *pebble.ValueSeparationPolicy, i int) {
		p.RewriteMinimumAge = []time.Duration{0, time.Hour}[i]
	}, 2, "0s", "1h")
	vsf("garbage_ratio_low_priority", func(p *pebble.ValueSeparationPolicy, i int) {
		p.GarbageRatioLowPriority = []float64{0, 0.155}[i]
	}, 2, "0", "0.155")
	vsf("garbage_ratio_high_priority", func(p *pebble.ValueSeparationPolicy, i int) {
		p.GarbageRatioHighPriority = []float64{0.3, 1.0}[i]
	}, 2, "0.3", "1.0")

	// ---- [WAL Failover] ----
	add(field{"failover.secondary_dir", []alt{
		{name: "sec", apply: func(b *build) { b.failover().Secondary.Dirname = "sec" }},
		{name: "/mnt/disk 2/wal=sec", apply: func(b *build) { b.failover().Secondary.Dirname = "/mnt/disk 2/wal=sec" }},
		{name: "{store_path}/sec", apply: func(b *build) { b.failover().Secondary.Dirname = "{store_path}/sec" }},
	}})
	add(field{"failover.secondary_identifier", []alt{
		{name: "0123..cdef", apply: func(b *build) { b.failover().Secondary.ID = "0123456789abcdef0123456789abcdef" }},
	}})
	fo := func(name string, set func(f *pebble.WALFailoverOptions, d time.Duration), ds ...time.Duration) {
		f := field{name: "failover." + name}
		for _, d := range ds {
			d := d
			f.alts = append(f.alts, alt{name: d.String(), apply: func(b *build) { set(b.failover(), d) }})
		}
		add(f)
	}
	fo("primary_dir_probe_interval", func(f *pebble.WALFailoverOptions, d time.Duration) { f.PrimaryDirProbeInterval = d }, 2*time.Second, time.Millisecond)
	fo("healthy_probe_latency_threshold", func(f *pebble.WALFailoverOptions, d time.Duration) { f.HealthyProbeLatencyThreshold = d }, 50*time.Millisecond, time.Microsecond)
	fo("healthy_interval", func(f *pebble.WALFailoverOptions, d time.Duration) { f.HealthyInterval = d }, time.Minute, time.Second)
	fo("unhealthy_sampling_interval", func(f *pebble.WALFailoverOptions, d time.Duration) { f.UnhealthySamplingInterval = d }, time.Second, time.Millisecond)
	add(field{"failover.unhealthy_operation_latency_threshold", []alt{
		{name: "(1s,true)", apply: func(b *build) {
			b.failover().UnhealthyOperationLatencyThreshold = func() (time.Duration, bool) { return time.Second, true }
		}},
		{name: "(250ms,false)", apply: func(b *build) {
			b.failover().UnhealthyOperationLatencyThreshold = func() (time.Duration, bool) { return 250 * time.Millisecond, false }
		}},
	}})
	fo("elevated_write_stall_threshold_lag", func(f *pebble.WALFailoverOptions, d time.Duration) { f.ElevatedWriteStallThresholdLag = d }, 10*time.Second, time.Hour)

	// ---- [Level "i"] ----
	profiles := []*block.CompressionProfile{block.NoCompression, block.ZstdCompression, block.MinLZCompression,
		block.FastestCompression, block.FastCompression, block.BalancedCompression, block.GoodCompression}
	filters := []pebble.TableFilterPolicy{bloom.FilterPolicy(10), bloom.FilterPolicy(7), bloom.AdaptivePolicy(16, 1048192),
		binaryfuse.FilterPolicy(8), binaryfuse.FilterPolicy(16), bloom.FilterPolicy(20), bloom.AdaptivePolicy(8, 4096)}
	for l := 0; l < manifest.NumLevels; l++ {
		l := l
		// compression: two profiles per level, rotating through all built-in non-default profiles.
		f := field{name: fmt.Sprintf("L%d.compression", l)}
		for _, p := range []*block.CompressionProfile{profiles[l%len(profiles)], profiles[(l+3)%len(profiles)]} {
			p := p
			f.alts = append(f.alts, alt{name: p.Name, apply: func(b *build) {
				b.o.Levels[l].Compression = func() *sstable.CompressionProfile { return p }
			}})
		}
		add(f)
		f = field{name: fmt.Sprintf("L%d.filter_policy", l)}
		for _, p := range []pebble.TableFilterPolicy{filters[l%len(filters)], filters[(l+3)%len(filters)]} {
			p := p
			f.alts = append(f.alts, alt{name: p.Name(), apply: func(b *build) {
				b.o.Levels[l].TableFilterPolicy = func() pebble.TableFilterPolicy { return p }
			}})
		}
		add(f)
		add(scalar(fmt.Sprintf("L%d.target_file_size", l), func(o *pebble.Options, v int64) { o.TargetFileSizes[l] = v }, 1, int64(3)<<30))
		if l == 0 || l == 3 || l == 6 {
			add(scalar(fmt.Sprintf("L%d.block_restart_interval", l), func(o *pebble.Options, v int) { o.Levels[l].BlockRestartInterval = v }, 1, 64))
			add(scalar(fmt.Sprintf("L%d.block_size", l), func(o *pebble.Options, v int) { o.Levels[l].BlockSize = v }, 1, 1<<20))
			add(scalar(fmt.Sprintf("L%d.block_size_threshold", l), func(o *pebble.Options, v int) { o.Levels[l].BlockSizeThreshold = v }, 1, 100))
			add(scalar(fmt.Sprintf("L%d.index_block_size", l), func(o *pebble.Options, v int) { o.Levels[l].IndexBlockSize = v }, 1, 1<<20))
		}
	}
	return fs
}
