// C05: reads on an indexed batch overlay the batch on the committed state. Nested enumeration
// (engine A): for every DB state of a fixed menu, every sequence of batch operations up to a depth
// bound is applied to a pebble.NewIndexedBatch of a real DB; after EVERY batch operation the batch
// reads (Get, points-only / ranges-only / combined iterators, forward, backward, seeks) are compared
// with the DB model with the batch applied on top, the plain DB reads with the DB model (no leak
// before Commit), and long-lived batch iterators with the batch view they are entitled to (their
// creation-time view until SetOptions or Clone{RefreshBatchView:true}; the indexed-batch half of
// C04). Every sequence is run with both endings on the same DB: first on a batch that is closed
// without commit (DB must be unchanged), then on a second indexed batch that is committed (DB must
// equal the overlay).
//
// Oracle sources: batch.go (type Batch "Indexing": every batch entry is newer than any DB entry,
// only the latest operation on a key is visible; Batch.NewIter: "observes all of the Batch's
// existing mutations, but no later mutations. Its view can be refreshed by calling SetOptions";
// ErrNotIndexed), iterator.go (SetOptions: "the iterator's view of the mutable batch is refreshed";
// CloneOptions.RefreshBatchView). No oracle correction was needed: the unchanged tree agrees on
// every case, including the exact interleaved positions of points and range-key start boundaries.
//
// Long-lived iterator schedule (fixed, not enumerated), t = number of batch ops applied:
//
//	discard pass: S0 (points+ranges, opened at t=0, never refreshed; at every t also a Clone{} and a
//	              Clone{RefreshBatchView} of it; refreshed by SetOptions at the very end) and
//	              R (points+ranges, opened at t=0, SetOptions after every op);
//	commit pass:  Rp (points only, opened at t=0, SetOptions after every op) and K (points+ranges,
//	              opened at t=1, replaced at t=3 by its Clone{RefreshBatchView}, parent closed).
//
// Write forms. Every batch operation that has a public deferred form (SetDeferred, MergeDeferred,
// DeleteDeferred, DeleteSizedDeferred, SingleDeleteDeferred, DeleteRangeDeferred,
// RangeKeyDeleteDeferred: "op := b.XDeferred(lens); copy(op.Key, ..); copy(op.Value, ..);
// op.Finish()") is a second symbol of the alphabet (bop.Def), so sequences mix both forms freely:
// a deferred op first in the batch, right after a DeleteRange, after a range-key op, after a point
// op, after LogData, direct after deferred. RangeKeySet / RangeKeyUnset / LogData have no exported
// deferred form (rangeKeySetDeferred / rangeKeyUnsetDeferred are unexported). The model does not
// know about forms: both forms of an operation mean the same. Nothing is read between XDeferred
// and Finish (the API leaves the batch incomplete there).
//
// Environment knobs for experiments only: C05_BALLAST_MB, C05_GOGC.
package c05

import (
	"context"
	"errors"
	"fmt"
	"os"
	"regexp"
	"runtime"
	"runtime/debug"
	"sort"
	"strconv"
	"strings"
	"sync"
	"testing"
	"time"

	"github.com/cockroachdb/pebble"
	"github.com/cockroachdb/pebble/internal/verif/hx"
	"github.com/cockroachdb/pebble/internal/verif/vlib"
	"github.com/cockroachdb/pebble/vfs"
)

// Point keys that are read back; "b" itself is never written (Get must not confuse it with b@1).
var universe = []string{"a", "b", "b@1", "c"}

// Range-key / excise boundaries of the model.
var bounds = []string{"a", "b", "c", "z"}

// Alphabet of the DB-state histories (C01 style), simplest first.
var dbAlpha = []hx.Op{
	{K: "set", Key: "a"},
	{K: "set", Key: "b@1"},
	{K: "del", Key: "a"},
	{K: "merge", Key: "a"},
	{K: "delrange", Key: "a", End: "c"},
	{K: "rkset", Key: "a", End: "c", Suf: "@1"},
	{K: "flush"},
}

// Hand-built DB shapes.
var handShapes = []dbState{
	{Name: "shape:l0+memtable", Hist: []hx.Op{
		{K: "set", Key: "a"}, {K: "set", Key: "b@1"}, {K: "flush"}, {K: "merge", Key: "a"}, {K: "set", Key: "c"},
	}},
	{Name: "shape:rangedel-over-keys", Hist: []hx.Op{
		{K: "set", Key: "a"}, {K: "set", Key: "b@1"}, {K: "set", Key: "c"}, {K: "flush"}, {K: "compact"},
		{K: "delrange", Key: "a", End: "c"}, {K: "flush"}, {K: "set", Key: "b@1"},
	}},
	{Name: "shape:rangekeys-sst+memtable", Hist: []hx.Op{
		{K: "rkset", Key: "a", End: "c", Suf: "@1"}, {K: "set", Key: "a"}, {K: "flush"},
		{K: "rkset", Key: "b", End: "c", Suf: "@2"}, {K: "merge", Key: "a"},
	}},
}

// Alphabet of batch operations (direct form), simplest first; all on the keys the DB states use.
// Prefixes of the list are the deeper plans' alphabets: the first core4N symbols (every operation
// kind but LogData and DeleteSized, whole-range and partial range keys) go, in direct form, to depth
// 3 in the quick tier and to depth 4 in the thorough tier; the first coreFormsN symbols (+
// DeleteSized) with both write forms go to depth 3 (quick: on a 4-state menu; thorough: coarse
// menu); the whole alphabet with both forms goes to depth 2, in direct form to depth 3 (thorough).
var batchAlpha = []hx.Op{
	{K: "set", Key: "a"},
	{K: "del", Key: "a"},
	{K: "merge", Key: "a"},
	{K: "set", Key: "b@1"},
	{K: "delrange", Key: "a", End: "c"},
	{K: "rkset", Key: "a", End: "c", Suf: "@1"},
	{K: "sdel", Key: "a"},
	{K: "rkunset", Key: "a", End: "c", Suf: "@1"},
	{K: "rkdel", Key: "a", End: "c"},
	{K: "rkset", Key: "b", End: "c", Suf: "@2"},
	// --- end of core4 (10)
	{K: "delsized", Key: "a", N: 2},
	// --- end of the mixed-forms core (11)
	{K: "delrange", Key: "b", End: "c"},
	{K: "merge", Key: "b@1"},
	{K: "logdata"},
	{K: "rkdel", Key: "a", End: "b"},
	{K: "set", Key: "c"},
}

const core4N = 10
const coreFormsN = 11

// bop is one symbol of the batch alphabet: an operation and the form of the write API it is
// issued through (Def: the XDeferred + Finish form).
type bop struct {
	hx.Op
	Def bool `json:"deferred,omitempty"`
}

func (o bop) String() string {
	if o.Def {
		return o.Op.String() + " [deferred]"
	}
	return o.Op.String()
}

func seqString(seq []bop) string {
	s := make([]string, len(seq))
	for i := range seq {
		s[i] = seq[i].String()
	}
	return strings.Join(s, " | ")
}

// hasDeferred: the operation kinds with an exported deferred form in batch.go.
func hasDeferred(k string) bool {
	switch k {
	case "set", "merge", "del", "delsized", "sdel", "delrange", "rkdel":
		return true
	}
	return false
}

// makeAlpha returns the symbols of base in direct form followed, if forms, by the deferred form of
// every symbol that has one (same order).
func makeAlpha(base []hx.Op, forms bool) []bop {
	var a []bop
	for _, op := range base {
		a = append(a, bop{Op: op})
	}
	if forms {
		for _, op := range base {
			if hasDeferred(op.K) {
				a = append(a, bop{Op: op, Def: true})
			}
		}
	}
	return a
}

func nDirect(a []bop) int {
	n := 0
	for _, o := range a {
		if !o.Def {
			n++
		}
	}
	return n
}

// applyBatchOp issues op on b through the form the symbol names.
func applyBatchOp(b *pebble.Batch, op bop, defVal string) error {
	if !op.Def {
		return hx.ApplySimple(b, op.Op, defVal)
	}
	val := op.Val
	if val == "" {
		val = defVal
	}
	var d *pebble.DeferredBatchOp
	switch op.K {
	case "set":
		d = b.SetDeferred(len(op.Key), len(val))
		copy(d.Value, val)
	case "merge":
		d = b.MergeDeferred(len(op.Key), len(val))
		copy(d.Value, val)
	case "del":
		d = b.DeleteDeferred(len(op.Key))
	case "delsized":
		// Value is filled in by DeleteSizedDeferred
		d = b.DeleteSizedDeferred(len(op.Key), uint32(op.N))
	case "sdel":
		d = b.SingleDeleteDeferred(len(op.Key))
	case "delrange":
		d = b.DeleteRangeDeferred(len(op.Key), len(op.End))
		copy(d.Value, op.End)
	case "rkdel":
		d = b.RangeKeyDeleteDeferred(len(op.Key), len(op.End))
		copy(d.Value, op.End)
	default:
		return fmt.Errorf("c05: %s has no deferred form", op.K)
	}
	copy(d.Key, op.Key)
	return d.Finish()
}

// dbCfg is hx's base configuration made cheap to open (a fresh DB is opened per case): 32 KiB
// memtable (zeroing a 256 KiB arena per Open dominated the run time; batches stay far below the
// large-batch threshold) and one block cache shared by all DBs of the process.
var dbCfg = hx.Config{Name: "memtable32k", MemTableSize: 32 << 10}

var sharedCache = pebble.NewCache(16 << 20)

func openDB() (*hx.X, error) {
	o := dbCfg.Options(vfs.NewMem())
	o.Cache = sharedCache
	return hx.OpenWith("db", o)
}

type dbState struct {
	Name string
	Hist []hx.Op
	// filled by prepare
	model   *hx.Model
	sig     string // fine signature (visible state, SingleDelete class, LSM shape, memtable contents)
	csig    string // coarse signature (visible state, LSM shape)
	members int    // histories in this state's deduplication class
}

// Case is the replay artefact: one DB state (as the history that builds it) and one batch-op sequence.
type Case struct {
	State string  `json:"state"`
	Hist  []hx.Op `json:"hist"`
	Seq   []bop   `json:"seq"`
	Phase string  `json:"phase,omitempty"` // informational: where it failed
	Step  int     `json:"step,omitempty"`
}

type failure struct {
	class, desc, phase string
	step               int
}

func bval(j int) string { return fmt.Sprintf("w%d", j) }

// ---------------------------------------------------------------------------------------------
// Expected iterator positions.

// pos is one iterator position as surfaced through the public Iterator API.
type pos struct {
	K    string
	P    bool   // has a point
	V    string // point value
	R    bool   // covered by a range key
	Span string // bounds and keys of the covering range key
}

func (p pos) String() string {
	s := p.K
	if p.P {
		s += "=" + p.V
	}
	if p.R {
		s += " " + p.Span
	}
	return s
}

func posString(ps []pos) string {
	s := make([]string, len(ps))
	for i := range ps {
		s[i] = ps[i].String()
	}
	return "<" + strings.Join(s, " | ") + ">"
}

func spanString(s hx.Span) string {
	var b strings.Builder
	b.WriteString("[" + s.Start + "," + s.End + "){")
	for _, k := range s.Keys {
		b.WriteString(k.K + "=" + k.V + ",")
	}
	b.WriteString("}")
	return b.String()
}

// view is what an iterator with the given key types must show for a model.
type view struct {
	pts   []hx.KV
	spans []hx.Span
	ps    []pos // positions of a full scan
}

func makeView(m *hx.Model, points, ranges bool) *view {
	v := &view{}
	if points {
		v.pts = m.Points()
	}
	if ranges {
		v.spans = m.Spans("", "")
	}
	keys := map[string]bool{}
	for _, p := range v.pts {
		keys[p.K] = true
	}
	for _, s := range v.spans {
		keys[s.Start] = true
	}
	ks := make([]string, 0, len(keys))
	for k := range keys {
		ks = append(ks, k)
	}
	sort.Slice(ks, func(i, j int) bool { return hx.Cmp(ks[i], ks[j]) < 0 })
	for _, k := range ks {
		v.ps = append(v.ps, v.at(k))
	}
	return v
}

// at describes position k (which need not be a scan position).
func (v *view) at(k string) pos {
	p := pos{K: k}
	for _, e := range v.pts {
		if e.K == k {
			p.P, p.V = true, e.V
		}
	}
	for _, s := range v.spans {
		if hx.Cmp(s.Start, k) <= 0 && hx.Cmp(k, s.End) < 0 {
			p.R, p.Span = true, spanString(s)
		}
	}
	return p
}

// seekGE returns where SeekGE(k) must land (ok=false: exhausted).
func (v *view) seekGE(k string) (pos, bool) {
	// a seek into the interior of a range key lands on the seek key itself
	if p := v.at(k); p.P || p.R {
		return p, true
	}
	for _, p := range v.ps {
		if hx.Cmp(p.K, k) >= 0 {
			return p, true
		}
	}
	return pos{}, false
}

// seekLT returns where SeekLT(k) must land: the largest scan position below k.
func (v *view) seekLT(k string) (pos, bool) {
	for i := len(v.ps) - 1; i >= 0; i-- {
		if hx.Cmp(v.ps[i].K, k) < 0 {
			return v.ps[i], true
		}
	}
	return pos{}, false
}

func cur(it *pebble.Iterator) pos {
	p := pos{K: string(it.Key())}
	hp, hr := it.HasPointAndRange()
	if hp {
		p.P, p.V = true, string(it.Value())
	}
	if hr {
		s, e := it.RangeBounds()
		sp := hx.Span{Start: string(s), End: string(e)}
		for _, k := range it.RangeKeys() {
			sp.Keys = append(sp.Keys, hx.KV{K: string(k.Suffix), V: string(k.Value)})
		}
		p.R, p.Span = true, spanString(sp)
	}
	return p
}

var seekKeys = []string{"a", "b", "b@1", "c", "d"}

// drive re-drives an open iterator through every positioning style and compares with the view it
// must show: seeks first (SeekGE(a) is both the first and the last call, so that two consecutive
// drives with a batch refresh in between exercise the repeated-seek optimisations), full forward
// scan, full backward scan, SeekLT of every key. "" = as expected.
func drive(it *pebble.Iterator, v *view) string {
	chk := func(what string, valid bool, want pos, wantOK bool) string {
		if valid != wantOK {
			if valid {
				return fmt.Sprintf("%s is positioned at %s, want exhausted", what, cur(it))
			}
			return fmt.Sprintf("%s is exhausted, want %s (iterator error: %v)", what, want, it.Error())
		}
		if valid {
			if got := cur(it); got != want {
				return fmt.Sprintf("%s is at %s, want %s", what, got, want)
			}
		}
		return ""
	}
	for _, k := range seekKeys {
		want, ok := v.seekGE(k)
		if d := chk("SeekGE("+k+")", it.SeekGE([]byte(k)), want, ok); d != "" {
			return d
		}
	}
	var fwd, bwd []pos
	for ok := it.First(); ok; ok = it.Next() {
		fwd = append(fwd, cur(it))
		if len(fwd) > 64 {
			return "forward scan does not terminate"
		}
	}
	if err := it.Error(); err != nil {
		return "forward scan: " + err.Error()
	}
	if g, w := posString(fwd), posString(v.ps); g != w {
		return fmt.Sprintf("forward scan shows %s, want %s", g, w)
	}
	for ok := it.Last(); ok; ok = it.Prev() {
		bwd = append(bwd, cur(it))
		if len(bwd) > 64 {
			return "backward scan does not terminate"
		}
	}
	if err := it.Error(); err != nil {
		return "backward scan: " + err.Error()
	}
	for i, j := 0, len(bwd)-1; i < j; i, j = i+1, j-1 {
		bwd[i], bwd[j] = bwd[j], bwd[i]
	}
	if g, w := posString(bwd), posString(v.ps); g != w {
		return fmt.Sprintf("backward scan shows (reversed) %s, want %s", g, w)
	}
	for _, k := range seekKeys {
		want, ok := v.seekLT(k)
		if d := chk("SeekLT("+k+")", it.SeekLT([]byte(k)), want, ok); d != "" {
			return d
		}
	}
	want, ok := v.seekGE("a")
	if d := chk("SeekGE(a)", it.SeekGE([]byte("a")), want, ok); d != "" {
		return d
	}
	if err := it.Error(); err != nil {
		return "iterator error: " + err.Error()
	}
	return ""
}

// ---------------------------------------------------------------------------------------------
// One case.

var optsPR = pebble.IterOptions{KeyTypes: pebble.IterKeyTypePointsAndRanges}
var optsP = pebble.IterOptions{KeyTypes: pebble.IterKeyTypePointsOnly}

type runner struct {
	c       *vlib.Ctx
	verbose bool
	x       *hx.X
	dbm     *hx.Model
	views   []*hx.Model // views[t] = DB model with the first t batch ops applied
	vPR     []*view     // cached expected views, points and ranges
	vP      []*view     // points only
	// outcome counters of the stale-view checks (non-vacuity of the C04 half)
	staleDiffers, staleSame int
}

func (r *runner) viewPR(t int) *view {
	if r.vPR[t] == nil {
		r.vPR[t] = makeView(r.views[t], true, true)
	}
	return r.vPR[t]
}

func (r *runner) viewP(t int) *view {
	if r.vP[t] == nil {
		r.vP[t] = makeView(r.views[t], true, false)
	}
	return r.vP[t]
}

func (r *runner) logf(f string, a ...any) {
	if r.verbose {
		fmt.Printf(f+"\n", a...)
	}
}

// noteStale records whether a stale view is distinguishable from the current one.
func (r *runner) noteStale(viewT, nowT int) {
	if viewT == nowT {
		return
	}
	if r.views[viewT].String() != r.views[nowT].String() {
		r.staleDiffers++
	} else {
		r.staleSame++
	}
}

// freshReads is check (1): every way of reading the batch now shows views[t].
func (r *runner) freshReads(b *pebble.Batch, t int, full bool) *failure {
	if d := hx.CompareLatest(b, r.views[t], universe, full); d != "" {
		return &failure{class: "batch-read-mismatch", desc: "Batch.Get / points-only / ranges-only batch iterators: " + d}
	}
	if full {
		it, err := b.NewIter(&optsPR)
		if err != nil {
			return &failure{class: "batch-read-error", desc: "Batch.NewIter: " + err.Error()}
		}
		d := drive(it, r.viewPR(t))
		if err := it.Close(); err != nil && d == "" {
			d = "Close: " + err.Error()
		}
		if d != "" {
			return &failure{class: "batch-iter-mismatch", desc: "fresh combined batch iterator: " + d + "; overlay model {" + r.views[t].String() + "}"}
		}
	}
	return nil
}

// dbUnchanged is check (2).
func (r *runner) dbUnchanged() *failure {
	if d := hx.CompareLatest(r.x.D, r.dbm, universe, true); d != "" {
		return &failure{class: "leak-before-commit", desc: "plain DB read while the batch is uncommitted: " + d}
	}
	return nil
}

// staleAndClones checks a long-lived iterator with view viewT at time t, a plain clone of it (must
// inherit the view) and a clone with RefreshBatchView (must show the batch as of now).
func (r *runner) staleAndClones(it *pebble.Iterator, name string, viewT, t int, pr bool) *failure {
	vw := r.viewPR
	if !pr {
		vw = r.viewP
	}
	r.noteStale(viewT, t)
	if d := drive(it, vw(viewT)); d != "" {
		return &failure{class: "stale-iter-view-changed", desc: fmt.Sprintf("iterator %s holds the batch view of time %d, now time %d: %s; its model {%s}, current overlay {%s}", name, viewT, t, d, r.views[viewT], r.views[t])}
	}
	cl, err := it.Clone(pebble.CloneOptions{})
	if err != nil {
		return &failure{class: "clone-error", desc: err.Error()}
	}
	d := drive(cl, vw(viewT))
	cl.Close()
	if d != "" {
		return &failure{class: "plain-clone-view-not-inherited", desc: fmt.Sprintf("Clone{} of iterator %s (batch view of time %d, now time %d): %s; its model {%s}, current overlay {%s}", name, viewT, t, d, r.views[viewT], r.views[t])}
	}
	cl, err = it.Clone(pebble.CloneOptions{RefreshBatchView: true})
	if err != nil {
		return &failure{class: "clone-error", desc: err.Error()}
	}
	d = drive(cl, vw(t))
	cl.Close()
	if d != "" {
		return &failure{class: "refresh-clone-not-current", desc: fmt.Sprintf("Clone{RefreshBatchView} of iterator %s (view of time %d) at time %d: %s; current overlay {%s}", name, viewT, t, d, r.views[t])}
	}
	// the clones must not have disturbed the parent
	if d := drive(it, vw(viewT)); d != "" {
		return &failure{class: "stale-iter-view-changed", desc: fmt.Sprintf("iterator %s (view of time %d) after cloning at time %d: %s", name, viewT, t, d)}
	}
	return nil
}

// refreshBySetOptions checks that it still shows views[t-1], calls SetOptions and checks views[t].
func (r *runner) refreshBySetOptions(it *pebble.Iterator, name string, t int, o *pebble.IterOptions, pr bool) *failure {
	vw := r.viewPR
	if !pr {
		vw = r.viewP
	}
	r.noteStale(t-1, t)
	if d := drive(it, vw(t-1)); d != "" {
		return &failure{class: "stale-iter-view-changed", desc: fmt.Sprintf("iterator %s refreshed at time %d, now time %d before SetOptions: %s; its model {%s}, current overlay {%s}", name, t-1, t, d, r.views[t-1], r.views[t])}
	}
	it.SetOptions(o)
	if d := drive(it, vw(t)); d != "" {
		return &failure{class: "setoptions-not-refreshed", desc: fmt.Sprintf("iterator %s after SetOptions at time %d: %s; current overlay {%s}", name, t, d, r.views[t])}
	}
	return nil
}

func at(f *failure, phase string, step int) *failure {
	if f != nil {
		f.phase, f.step = phase, step
	}
	return f
}

// runCase runs one (DB state, batch sequence) pair. skipped = outside the SingleDelete contract.
func runCase(c *vlib.Ctx, st *dbState, seq []bop, verbose bool) (f *failure, skipped bool, r *runner) {
	r = &runner{c: c, verbose: verbose}
	d := len(seq)
	// models first: the generator guards the SingleDelete contract against DB + batch
	r.dbm = st.model.Clone()
	r.views = make([]*hx.Model, d+1)
	r.vPR = make([]*view, d+1)
	r.vP = make([]*view, d+1)
	r.views[0] = r.dbm
	batchOnly := hx.NewModel(bounds...)
	m := r.dbm.Clone()
	for j, op := range seq {
		if !m.Legal(op.Op) {
			return nil, true, r
		}
		m.Apply(op.Op, bval(j))
		batchOnly.Apply(op.Op, bval(j))
		r.views[j+1] = m.Clone()
	}

	x, err := openDB()
	if err != nil {
		return &failure{class: "open-error", desc: err.Error()}, false, r
	}
	r.x = x
	dbOpen := true
	var its []*pebble.Iterator
	var batches []*pebble.Batch
	defer func() {
		if p := recover(); p != nil {
			f = &failure{class: "panic", desc: fmt.Sprintf("panic: %v", p), phase: "?"}
		}
		if dbOpen {
			// best-effort cleanup after a failure
			func() {
				defer func() { recover() }()
				for _, it := range its {
					it.Close()
				}
				for _, b := range batches {
					b.Close()
				}
				x.D.Close()
			}()
		}
	}()
	for i, op := range st.Hist {
		if err := x.Apply(i, op); err != nil {
			return &failure{class: "db-state-build-error", desc: fmt.Sprintf("state step %d (%s): %v", i, op, err)}, false, r
		}
	}
	if dd := hx.CompareLatest(x.D, r.dbm, universe, true); dd != "" {
		return &failure{class: "db-state-mismatch", desc: "DB state before any batch (a C01 matter): " + dd}, false, r
	}
	shape0 := x.Shape()
	r.logf("DB state %s: model {%s}\n%s", st.Name, r.dbm, shape0)

	// ---------------- phase 1: indexed batch, closed without commit ----------------
	b := x.D.NewIndexedBatch()
	batches = append(batches, b)
	open := func(o *pebble.IterOptions) *pebble.Iterator {
		it, err := b.NewIter(o)
		if err != nil {
			panic("Batch.NewIter on an indexed batch: " + err.Error())
		}
		its = append(its, it)
		return it
	}
	closeIts := func() error {
		var first error
		for _, it := range its {
			if err := it.Close(); err != nil && first == nil {
				first = err
			}
		}
		its = nil
		return first
	}
	s0 := open(&optsPR)  // never refreshed
	rPR := open(&optsPR) // refreshed by SetOptions after every op
	if f := r.freshReads(b, 0, true); f != nil {
		return at(f, "discard", 0), false, r
	}
	if dd := drive(s0, r.viewPR(0)); dd != "" {
		return at(&failure{class: "batch-iter-mismatch", desc: "iterator on the empty batch: " + dd}, "discard", 0), false, r
	}
	if dd := drive(rPR, r.viewPR(0)); dd != "" {
		return at(&failure{class: "batch-iter-mismatch", desc: "iterator on the empty batch: " + dd}, "discard", 0), false, r
	}
	for j, op := range seq {
		t := j + 1
		if err := applyBatchOp(b, op, bval(j)); err != nil {
			return at(&failure{class: "batch-op-error", desc: fmt.Sprintf("%s: %v", op, err)}, "discard", t), false, r
		}
		c.Trans(1)
		r.logf("discard phase, time %d: batch %s -> overlay {%s}", t, op, r.views[t])
		if f := r.freshReads(b, t, true); f != nil {
			return at(f, "discard", t), false, r
		}
		if f := r.dbUnchanged(); f != nil {
			return at(f, "discard", t), false, r
		}
		if f := r.staleAndClones(s0, "S0(created on the empty batch)", 0, t, true); f != nil {
			return at(f, "discard", t), false, r
		}
		if f := r.refreshBySetOptions(rPR, "R(points+ranges)", t, &optsPR, true); f != nil {
			return at(f, "discard", t), false, r
		}
		c.State(vlib.Hash(st.Name, r.views[t].String()))
	}
	// the never-refreshed iterator finally refreshes through SetOptions as well
	s0.SetOptions(&optsPR)
	if dd := drive(s0, r.viewPR(d)); dd != "" {
		return at(&failure{class: "setoptions-not-refreshed", desc: fmt.Sprintf("iterator S0 (created on the empty batch) after its first SetOptions at time %d: %s; current overlay {%s}", d, dd, r.views[d])}, "discard", d), false, r
	}
	if err := closeIts(); err != nil {
		return at(&failure{class: "iter-close-error", desc: err.Error()}, "discard", d), false, r
	}
	if err := b.Close(); err != nil {
		return at(&failure{class: "batch-close-error", desc: err.Error()}, "discard", d), false, r
	}
	batches = nil
	if dd := hx.CompareLatest(x.D, r.dbm, universe, true); dd != "" {
		return at(&failure{class: "discarded-batch-changed-db", desc: "after Batch.Close without Commit: " + dd}, "discard", d), false, r
	}
	if s := x.Shape(); s != shape0 {
		return at(&failure{class: "discarded-batch-changed-db", desc: "after Batch.Close without Commit the LSM changed:\n" + shape0 + "\n->\n" + s}, "discard", d), false, r
	}

	// ---------------- non-indexed batch: documented error, not a panic ----------------
	if f := nonIndexed(x.D, seq); f != nil {
		return at(f, "non-indexed", d), false, r
	}

	// ---------------- phase 2: second indexed batch (recycled), committed ----------------
	b = x.D.NewIndexedBatch()
	batches = append(batches, b)
	rP := open(&optsP) // points only, refreshed by SetOptions after every op
	var k *pebble.Iterator
	kView := 0
	if dd := drive(rP, r.viewP(0)); dd != "" {
		return at(&failure{class: "batch-iter-mismatch", desc: "points-only iterator on the empty (recycled) batch: " + dd}, "commit", 0), false, r
	}
	for j, op := range seq {
		t := j + 1
		if err := applyBatchOp(b, op, bval(j)); err != nil {
			return at(&failure{class: "batch-op-error", desc: fmt.Sprintf("%s: %v", op, err)}, "commit", t), false, r
		}
		c.Trans(1)
		r.logf("commit phase, time %d: batch %s -> overlay {%s}", t, op, r.views[t])
		if f := r.freshReads(b, t, false); f != nil {
			return at(f, "commit", t), false, r
		}
		if t == d { // phase 1 checked it after every op; here once more right before Commit
			if f := r.dbUnchanged(); f != nil {
				return at(f, "commit", t), false, r
			}
		}
		if f := r.refreshBySetOptions(rP, "Rp(points only)", t, &optsP, false); f != nil {
			return at(f, "commit", t), false, r
		}
		switch {
		case t == 1:
			// K is created on a batch that already holds one operation
			k = open(&optsPR)
			kView = 1
			if dd := drive(k, r.viewPR(1)); dd != "" {
				return at(&failure{class: "batch-iter-mismatch", desc: "iterator K created at time 1: " + dd}, "commit", t), false, r
			}
		case t == 3:
			// K is replaced by its refreshing clone: the clone keeps the view of the Clone call
			if f := r.staleAndClones(k, "K(created at time 1)", kView, t, true); f != nil {
				return at(f, "commit", t), false, r
			}
			k2, err := k.Clone(pebble.CloneOptions{RefreshBatchView: true})
			if err != nil {
				return at(&failure{class: "clone-error", desc: err.Error()}, "commit", t), false, r
			}
			// the clone must survive its parent
			for n, o := range its {
				if o == k {
					its = append(its[:n], its[n+1:]...)
					break
				}
			}
			if err := k.Close(); err != nil {
				return at(&failure{class: "iter-close-error", desc: err.Error()}, "commit", t), false, r
			}
			its = append(its, k2)
			k, kView = k2, 3
			if dd := drive(k, r.viewPR(3)); dd != "" {
				return at(&failure{class: "refresh-clone-not-current", desc: "K replaced by Clone{RefreshBatchView} at time 3: " + dd}, "commit", t), false, r
			}
		default:
			name := "K(created at time 1)"
			if kView == 3 {
				name = "K(Clone{RefreshBatchView} made at time 3)"
			}
			if f := r.staleAndClones(k, name, kView, t, true); f != nil {
				return at(f, "commit", t), false, r
			}
		}
	}
	// batch-only iterator: the batch as the only layer
	{
		bo, err := b.NewBatchOnlyIter(context.Background(), &optsPR)
		if err != nil {
			return at(&failure{class: "batch-read-error", desc: "NewBatchOnlyIter: " + err.Error()}, "commit", d), false, r
		}
		dd := drive(bo, makeView(batchOnly, true, true))
		bo.Close()
		if dd != "" {
			return at(&failure{class: "batch-only-iter-mismatch", desc: "NewBatchOnlyIter: " + dd + "; batch-only model {" + batchOnly.String() + "}"}, "commit", d), false, r
		}
	}
	if err := closeIts(); err != nil {
		return at(&failure{class: "iter-close-error", desc: err.Error()}, "commit", d), false, r
	}
	if err := b.Commit(pebble.NoSync); err != nil {
		return at(&failure{class: "commit-error", desc: err.Error()}, "commit", d), false, r
	}
	if dd := hx.CompareLatest(x.D, r.views[d], universe, true); dd != "" {
		return at(&failure{class: "commit-not-overlay", desc: "DB after Commit differs from the overlay the batch showed: " + dd}, "commit", d), false, r
	}
	if err := b.Close(); err != nil {
		return at(&failure{class: "batch-close-error", desc: err.Error()}, "commit", d), false, r
	}
	batches = nil
	c.State(vlib.Hash(st.Name, "committed", r.views[d].String(), x.Shape()))
	dbOpen = false
	if err := x.D.Close(); err != nil {
		return at(&failure{class: "close-error", desc: err.Error()}, "commit", d), false, r
	}
	return nil, false, r
}

// nonIndexed checks that reads on a write-only batch holding seq return ErrNotIndexed.
func nonIndexed(d *pebble.DB, seq []bop) (f *failure) {
	nb := d.NewBatch()
	defer func() {
		if p := recover(); p != nil {
			f = &failure{class: "non-indexed-read-panic", desc: fmt.Sprintf("read on a non-indexed batch panicked: %v", p)}
		}
	}()
	for j, op := range seq {
		if err := applyBatchOp(nb, op, bval(j)); err != nil {
			return &failure{class: "batch-op-error", desc: fmt.Sprintf("non-indexed batch %s: %v", op, err)}
		}
	}
	bad := func(what string, it *pebble.Iterator, err error) *failure {
		if it != nil {
			it.Close()
		}
		if !errors.Is(err, pebble.ErrNotIndexed) || it != nil {
			return &failure{class: "non-indexed-read-no-error", desc: fmt.Sprintf("%s on a non-indexed batch returned iterator=%v err=%v, want ErrNotIndexed", what, it != nil, err)}
		}
		return nil
	}
	it, err := nb.NewIter(nil)
	if f := bad("NewIter", it, err); f != nil {
		return f
	}
	it, err = nb.NewIter(&optsPR)
	if f := bad("NewIter(points+ranges)", it, err); f != nil {
		return f
	}
	it, err = nb.NewBatchOnlyIter(context.Background(), nil)
	if f := bad("NewBatchOnlyIter", it, err); f != nil {
		return f
	}
	if _, cl, err := nb.Get([]byte("a")); !errors.Is(err, pebble.ErrNotIndexed) {
		if cl != nil {
			cl.Close()
		}
		return &failure{class: "non-indexed-read-no-error", desc: fmt.Sprintf("Get on a non-indexed batch returned err=%v, want ErrNotIndexed", err)}
	}
	if err := nb.Close(); err != nil {
		return &failure{class: "batch-close-error", desc: "non-indexed batch: " + err.Error()}
	}
	return nil
}

// ---------------------------------------------------------------------------------------------
// DB states.

var reSeq = regexp.MustCompile(`#\d+`)
var reFile = regexp.MustCompile(`\b\d{6}\b`)
var reVal = regexp.MustCompile(`v\d+`)

// prepare replays a state's history on a real DB and on the model and computes its signatures.
func prepare(st *dbState) error {
	x, err := openDB()
	if err != nil {
		return err
	}
	defer x.D.Close()
	m := hx.NewModel(bounds...)
	var memOps []hx.Op // memtable contents, in normal form under commuting neighbours
	for i, op := range st.Hist {
		if !m.Legal(op) {
			return fmt.Errorf("state %s leaves the SingleDelete contract", st.Name)
		}
		if err := x.Apply(i, op); err != nil {
			return err
		}
		m.Apply(op, fmt.Sprintf("v%d", i))
		switch op.K {
		case "flush":
			memOps = nil
		case "compact":
		default:
			memOps = append(memOps, op)
			for j := len(memOps) - 1; j > 0; j-- {
				if commute(memOps[j-1], memOps[j]) && memOps[j-1].String() > memOps[j].String() {
					memOps[j-1], memOps[j] = memOps[j], memOps[j-1]
				} else {
					break
				}
			}
		}
	}
	mem := make([]string, len(memOps))
	for i, op := range memOps {
		mem[i] = op.String()
	}
	if d := hx.CompareLatest(x.D, m, universe, true); d != "" {
		return fmt.Errorf("state %s: %s", st.Name, d)
	}
	st.model = m
	shape := reFile.ReplaceAllString(reSeq.ReplaceAllString(x.Shape(), "#"), "F")
	vis := reVal.ReplaceAllString(m.String(), "v")
	sd := ""
	for _, k := range universe {
		if m.CanSingleDelete(k) {
			sd += k + ","
		}
	}
	st.csig = vis + "\n" + shape
	st.sig = vis + "\nsd:" + sd + "\nmem:" + strings.Join(mem, ";") + "\n" + shape
	return nil
}

// commute reports whether two adjacent history ops leave the same DB (contents and visible state)
// in either order: points on different keys, and range keys against points / range deletions.
func commute(x, y hx.Op) bool {
	if x.K == "flush" || y.K == "flush" {
		return false
	}
	rk := func(o hx.Op) bool { return o.K == "rkset" || o.K == "rkunset" || o.K == "rkdel" }
	if rk(x) != rk(y) {
		return true
	}
	if rk(x) || x.K == "delrange" || y.K == "delrange" {
		return false
	}
	return x.Key != y.Key
}

// buildStates returns the two state menus built from the histories of depth <= 2 over dbAlpha:
// fine = deduplicated by (visible state, SingleDelete class, LSM shape, memtable contents up to
// commuting operations); coarse = deduplicated C01-style by (visible state, LSM shape), each class
// represented by its member with the most internal keys (the earliest of those). The hand-built
// shapes are appended to both.
func buildStates() (fine, coarse []*dbState, total int, err error) {
	k := len(dbAlpha)
	n := vlib.SeqCount(k, 1, 2)
	all := []*dbState{{Name: "empty"}}
	for i := 0; i < n; i++ {
		st := &dbState{}
		for _, s := range vlib.SeqDecode(i, k, 1, 2) {
			st.Hist = append(st.Hist, dbAlpha[s])
		}
		st.Name = "hist:" + hx.HistString(st.Hist)
		all = append(all, st)
	}
	total = len(all)
	weight := func(st *dbState) int {
		n := 0
		for _, op := range st.Hist {
			if op.K != "flush" {
				n++
			}
		}
		return n
	}
	dedupe := func(sig func(*dbState) string) []*dbState {
		var out []*dbState
		seen := map[string]int{}
		for _, st0 := range all {
			st := *st0
			st.members = 1
			if j, ok := seen[sig(&st)]; ok {
				if weight(&st) > weight(out[j]) {
					st.members = out[j].members
					out[j] = &st
				}
				out[j].members++
				continue
			}
			seen[sig(&st)] = len(out)
			out = append(out, &st)
		}
		return out
	}
	for _, st := range all {
		if err := prepare(st); err != nil {
			return nil, nil, 0, err
		}
	}
	fine = dedupe(func(st *dbState) string { return st.sig })
	coarse = dedupe(func(st *dbState) string { return st.csig })
	for i := range handShapes {
		st := &handShapes[i]
		if err := prepare(st); err != nil {
			return nil, nil, 0, err
		}
		st.members = 1
		fine = append(fine, st)
		coarse = append(coarse, st)
	}
	return fine, coarse, total, nil
}

// ---------------------------------------------------------------------------------------------

func findState(states []*dbState, cs Case) *dbState {
	st := &dbState{Name: cs.State, Hist: cs.Hist}
	if err := prepare(st); err != nil {
		panic(err)
	}
	return st
}

// Watchdog: a read that never returns (e.g. an iterator cycling inside Pebble) cannot be interrupted
// from Go; a case in flight for more than hangLimit is reported as a violation of class "hang" and
// the process writes its result and exits.
const hangLimit = 60 * time.Second

type flight struct {
	cs    Case
	start time.Time
}

var inflight sync.Map // *flight -> struct{}

func watchdog(c *vlib.Ctx, stop chan struct{}) {
	for {
		select {
		case <-stop:
			return
		case <-time.After(2 * time.Second):
		}
		inflight.Range(func(k, _ any) bool {
			fl := k.(*flight)
			if time.Since(fl.start) > hangLimit {
				c.Violation("hang", fmt.Sprintf("DB state %s [%s], batch [%s]: the case did not finish within %s (a read or write call does not return)", fl.cs.State, hx.HistString(fl.cs.Hist), seqString(fl.cs.Seq), hangLimit), fl.cs)
				c.Incomplete("aborted: a case hung (violation class hang)")
				c.WriteAndExit()
			}
			return true
		})
	}
}

type plan struct {
	name       string
	states     []*dbState
	alpha      []bop
	minD, maxD int // sequence lengths; shorter sequences of a deeper plan are covered by an earlier one
	// covered reports a sequence (as symbol indices) that an earlier plan of the same run executes on
	// every state of this plan; such sequences are not run again (nil: none).
	covered     func(sym []int) bool
	coveredNote string
}

// formsMenu is the state menu of the quick tier's depth-3 mixed-forms plan: the hand-built shapes
// (keys under an L0 file + merge stack, keys under a flushed range tombstone, range keys in two
// layers) and the first coarse history state with the most visible point keys among those in which
// SingleDelete a is inside its contract (the shapes do not allow it).
func formsMenu(coarse []*dbState) []*dbState {
	var best *dbState
	for _, st := range coarse {
		if !strings.HasPrefix(st.Name, "hist:") || !st.model.CanSingleDelete("a") {
			continue
		}
		if best == nil || len(st.model.Points()) > len(best.model.Points()) {
			best = st
		}
	}
	var menu []*dbState
	if best != nil {
		menu = append(menu, best)
	}
	for _, st := range coarse {
		if strings.HasPrefix(st.Name, "shape:") {
			menu = append(menu, st)
		}
	}
	return menu
}

// prevClass names what precedes a deferred operation in its batch (outcome histogram).
func prevClass(seq []bop, j int) string {
	if j == 0 {
		return "first-op-of-batch"
	}
	form := "direct"
	if seq[j-1].Def {
		form = "deferred"
	}
	switch seq[j-1].K {
	case "delrange":
		return form + "-rangedel"
	case "rkset", "rkunset", "rkdel":
		return form + "-rangekey-op"
	case "logdata":
		return "logdata"
	}
	return form + "-point-op"
}

func TestCheck(t *testing.T) {
	// One DB is opened per case (about 1 MiB of short-lived allocations each) on a live heap of a few
	// MiB: an untouched ballast makes collections rare instead of one every few cases.
	mb := 128
	if v, err := strconv.Atoi(os.Getenv("C05_BALLAST_MB")); err == nil {
		mb = v
	}
	if v, err := strconv.Atoi(os.Getenv("C05_GOGC")); err == nil {
		debug.SetGCPercent(v)
	}
	ballast := make([]byte, mb<<20)
	defer runtime.KeepAlive(ballast)
	vlib.Main(t, "C05", func(c *vlib.Ctx) {
		if c.ReplayPath() != "" {
			var cs Case
			if err := c.LoadReplay(&cs); err != nil {
				t.Fatal(err)
			}
			st := findState(nil, cs)
			f, skipped, _ := runCase(c, st, cs.Seq, true)
			fmt.Printf("replay: state=%s seq=[%s] skipped=%v failure=%+v\n", cs.State, seqString(cs.Seq), skipped, f)
			if f != nil {
				cs.Phase, cs.Step = f.phase, f.step
				c.Violation(f.class, describe(st, cs.Seq, f), cs)
			}
			c.Eval(1)
			return
		}
		stop := make(chan struct{})
		defer close(stop)
		go watchdog(c, stop)
		fine, coarse, total, err := buildStates()
		if err != nil {
			c.Incomplete("cannot build the DB states: " + err.Error())
			return
		}
		stateNames := func(states []*dbState) []string {
			var names []string
			for _, s := range states {
				names = append(names, fmt.Sprintf("%s (x%d)", s.Name, s.members))
			}
			return names
		}
		c.Note("db_states_coarse", stateNames(coarse))
		var plans []plan
		allForms := makeAlpha(batchAlpha, true)               // every symbol in both write forms
		allDirect := makeAlpha(batchAlpha, false)             // direct form only
		coreDirect := makeAlpha(batchAlpha[:core4N], false)   // core, direct form only
		coreForms := makeAlpha(batchAlpha[:coreFormsN], true) // core + DeleteSized in both write forms
		if !c.Thorough() {
			menu := formsMenu(coarse)
			c.Note("db_states_mixed_forms_depth3", stateNames(menu))
			plans = []plan{
				{name: "both-forms", states: coarse, alpha: allForms, minD: 0, maxD: 2},
				{name: "core-direct", states: coarse, alpha: coreDirect, minD: 3, maxD: 3},
				{name: "core-both-forms", states: menu, alpha: coreForms, minD: 3, maxD: 3,
					// the direct symbols are the first coreFormsN of coreForms, the first core4N of them
					// are plan core-direct's alphabet, and menu is a subset of the coarse menu
					covered: func(sym []int) bool {
						for _, s := range sym {
							if s >= core4N {
								return false
							}
						}
						return true
					},
					coveredNote: fmt.Sprintf("the %d all-direct sequences over the first %d symbols, run by plan core-direct on these states", core4N*core4N*core4N, core4N)},
			}
		} else {
			c.Note("db_states_fine", stateNames(fine))
			plans = []plan{
				{name: "both-forms", states: fine, alpha: allForms, minD: 0, maxD: 2},
				{name: "direct", states: fine, alpha: allDirect, minD: 3, maxD: 3},
				{name: "core-both-forms", states: coarse, alpha: coreForms, minD: 3, maxD: 3},
				{name: "core-direct", states: coarse, alpha: coreDirect, minD: 4, maxD: 4},
			}
		}
		var notes []string
		for _, p := range plans {
			p := p
			k := len(p.alpha)
			minD := p.minD
			extra := 0
			if minD == 0 {
				extra, minD = 1, 1 // the empty batch
			}
			nSeq := vlib.SeqCount(k, minD, p.maxD)
			states := p.states
			nS := len(states)
			// the sequence indices this plan runs (all, or all but the covered ones), in order
			sis := make([]int, 0, nSeq+extra)
			for si := 0; si < nSeq+extra; si++ {
				if p.covered != nil && si >= extra && p.covered(vlib.SeqDecode(si-extra, k, minD, p.maxD)) {
					continue
				}
				sis = append(sis, si)
			}
			nCovered := nSeq + extra - len(sis)
			n := len(sis) * nS
			done, complete := c.Each(n, func(i int) {
				si, st := sis[i/nS], states[i%nS]
				var seq []bop
				if si >= extra {
					for _, s := range vlib.SeqDecode(si-extra, k, minD, p.maxD) {
						seq = append(seq, p.alpha[s])
					}
				}
				fl := &flight{cs: Case{State: st.Name, Hist: st.Hist, Seq: seq}, start: time.Now()}
				inflight.Store(fl, struct{}{})
				f, skipped, r := runCase(c, st, seq, false)
				inflight.Delete(fl)
				c.Eval(1)
				switch {
				case skipped:
					c.Outcome("skipped-outside-singledelete-contract")
				case f != nil:
					// re-execute before reporting (the first violations only: a broken tree fails nearly
					// every case and only 5 artefacts per class are kept anyway)
					for n := 0; n < 2 && c.NViolations() < 20; n++ {
						if f2, _, _ := runCase(c, st, seq, false); f2 == nil {
							c.Incomplete("violation did not reproduce: " + describe(st, seq, f))
							return
						}
					}
					c.Violation(f.class, describe(st, seq, f), Case{State: st.Name, Hist: st.Hist, Seq: seq, Phase: f.phase, Step: f.step})
				default:
					c.Outcome("agree")
					c.OutcomeN("stale-view-check:view-differs-from-current", int64(r.staleDiffers))
					c.OutcomeN("stale-view-check:view-equals-current", int64(r.staleSame))
					d := len(seq)
					if d > 0 {
						final, db := r.views[d].String(), r.dbm.String()
						bo := hx.NewModel(bounds...)
						nDef := 0
						for j, op := range seq {
							bo.Apply(op.Op, bval(j))
							if op.Def {
								nDef++
								c.Outcome("deferred-op-after:" + prevClass(seq, j))
							}
						}
						switch nDef {
						case 0:
							c.Outcome("forms:all-direct")
						case d:
							c.Outcome("forms:all-deferred")
						default:
							c.Outcome("forms:mixed")
						}
						if final != db {
							c.Outcome("batch-changes-visible-state")
						} else {
							c.Outcome("batch-leaves-visible-state")
						}
						if len(st.Hist) > 0 && final != db && final != bo.String() {
							c.Nontrivial(vlib.Hash(st.Name, seqString(seq)))
						}
					}
					if i%5003 == 0 || (i%1009 == 0 && len(seq) > 0 && seq[len(seq)-1].Def) {
						c.Sample(map[string]any{"state": st.Name, "batch": seqString(seq), "overlay": r.views[d].String(), "db": r.dbm.String()})
					}
				}
			})
			desc := fmt.Sprintf("plan %s: %d DB states x batch alphabet of %d symbols (%d direct + %d deferred), sequences of length %d..%d", p.name, nS, k, nDirect(p.alpha), k-nDirect(p.alpha), p.minD, p.maxD)
			if nCovered > 0 {
				desc += fmt.Sprintf(" except %s", p.coveredNote)
			}
			notes = append(notes, fmt.Sprintf("%s: %d/%d cases", desc, done, n))
			if !complete {
				c.Incomplete(fmt.Sprintf("budget expired after %d of %d cases of %s; earlier plans complete; cases are ordered by sequence (shortest first, direct symbols before deferred ones), all DB states per sequence", done, n, desc))
				break
			}
		}
		c.Note("plans", notes)
		c.Note("scope", fmt.Sprintf("DB states: the %d histories of depth <=2 over %d symbols deduplicated to %d (coarse: visible state + LSM shape) / %d (fine: + SingleDelete class + memtable contents), + %d hand-built shapes; batch symbols = operation x write form (direct call, or XDeferred + copy + Finish for the 7 kinds that export one); every case runs its batch sequence, with the forms its symbols name, on an indexed batch that is discarded and then on a second (recycled) indexed batch that is committed, with all checks after every batch op", total, len(dbAlpha), len(coarse)-len(handShapes), len(fine)-len(handShapes), len(handShapes)))
	})
}

func describe(st *dbState, seq []bop, f *failure) string {
	return fmt.Sprintf("DB state %s [%s], batch [%s], %s phase, after batch op %d: %s", st.Name, hx.HistString(st.Hist), seqString(seq), f.phase, f.step, f.desc)
}
