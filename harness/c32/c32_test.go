// C32: span fragmentation preserves coverage exactly.
//
// Every sequence of <= 3 (quick) / <= 4 (thorough) input spans over the six intervals [x,y), x<y in
// {a,b,c,d}, each carrying one of 8 key sets (1-2 keys; distinct and deliberately colliding
// (seqnum, kind, suffix, value) tuples), in every Add order the Fragmenter contract allows
// (non-decreasing start key), is pushed through the real keyspan.Fragmenter, keyspan.Iter,
// keyspan.Truncate, keyspanimpl.MergingIter (inputs distributed over <= 3 levels),
// keyspan.DefragmentingIter with keyspan.DefragmentInternal, the user-iteration stack of
// rangekeystack.UserIteratorConfig (MergingIter+Transform -> BoundedIter -> DefragmentingIter with the
// logical equality method) and keyspanimpl.LevelIter.
//
// Oracle: per elementary interval [a,b) [b,c) [c,d) the multiset of keys of the output span covering it
// equals the union of the keys of the input spans covering it (restricted to the bounds for Truncate;
// mapped through a 25-line model of range-key shadowing for the logical stack), outputs are sorted and
// non-overlapping, keys are in trailer-descending order, defragmented outputs are maximal, and every
// iterator positioning sequence agrees with a cursor over the iterator's own (validated) forward
// listing.
package c32

import (
	"context"
	"fmt"
	"os"
	"runtime/debug"
	"sort"
	"strconv"
	"strings"
	"testing"

	"github.com/cockroachdb/pebble/internal/base"
	"github.com/cockroachdb/pebble/internal/keyspan"
	"github.com/cockroachdb/pebble/internal/keyspan/keyspanimpl"
	"github.com/cockroachdb/pebble/internal/manifest"
	"github.com/cockroachdb/pebble/internal/rangekeystack"
	"github.com/cockroachdb/pebble/internal/verif/vlib"
)

// ---------------------------------------------------------------------------------------------
// Universe

var comparer = base.DefaultComparer
var cmp = base.DefaultComparer.Compare

var ukeys = [4][]byte{{'a'}, {'b'}, {'c'}, {'d'}}

// The six intervals, ordered by (start, end).
var ivals = [6][2]int{{0, 1}, {0, 2}, {0, 3}, {1, 2}, {1, 3}, {2, 3}}

// Seek keys: every boundary key and every gap. rank(seekKeys[j]) = j; boundary i has rank 2i+1.
var seekKeys = [9][]byte{[]byte("0"), []byte("a"), []byte("aa"), []byte("b"), []byte("bb"), []byte("c"), []byte("cc"), []byte("d"), []byte("dd")}

type kdef struct {
	seq  uint64
	kind base.InternalKeyKind
	suf  string
	val  string
}

const (
	kSet   = base.InternalKeyKindRangeKeySet
	kUnset = base.InternalKeyKindRangeKeyUnset
	kDel   = base.InternalKeyKindRangeKeyDelete
)

// The distinct keys. Two keys never agree on (seqnum, kind, suffix, value). Key 9 agrees with key 0 on
// (seqnum, kind, suffix) and differs in the VALUE only - what two range keys of one ingested table
// look like (all keys of an ingested table share its sequence number). Cases in which keys 0 and 9
// cover a common interval are skipped (which of the two shadows the other is undefined); abutting
// fragments carrying them must never be joined.
var keyDefs = []kdef{
	0: {5, kSet, "@1", "v1"},
	1: {3, kSet, "@1", "v0"},
	2: {7, kUnset, "@1", ""},
	3: {4, kDel, "", ""},
	4: {6, kSet, "@2", "w"},
	5: {6, kUnset, "@1", ""},
	6: {2, kSet, "@2", "w"},
	7: {8, kSet, "@1", "v1"},
	8: {8, kSet, "@3", "u"},
	9: {5, kSet, "@1", "v0"},
}

// The key-set menu of an input span, simplest first. Keys inside an entry are in trailer-descending
// order (Fragmenter.Add requires it). Entries 0 and 5 share a key (so that two spans can carry an
// identical key: physical fragmentation), entries 4 and 6 have two keys, entry 6 has two keys with
// the same trailer.
var menu = [][]int{{0}, {1}, {2}, {3}, {4, 5}, {0, 6}, {7, 8}, {9}}

var menuCode []uint64
var keyTrailer []base.InternalKeyTrailer

// (suffix,value) pairs of the SET keys: the alphabet of user-visible states.
var pairs = [][2]string{{"@1", "v0"}, {"@1", "v1"}, {"@2", "w"}, {"@3", "u"}}

func init() {
	for _, d := range keyDefs {
		keyTrailer = append(keyTrailer, base.MakeTrailer(base.SeqNum(d.seq), d.kind))
	}
	for _, m := range menu {
		var c uint64
		for _, id := range m {
			c += 1 << (4 * uint(id))
		}
		menuCode = append(menuCode, c)
	}
}

func mkKey(id int) keyspan.Key {
	d := keyDefs[id]
	k := keyspan.Key{Trailer: keyTrailer[id]}
	if d.suf != "" {
		k.Suffix = []byte(d.suf)
	}
	if d.val != "" {
		k.Value = []byte(d.val)
	}
	return k
}

func keyID(k *keyspan.Key) int {
	for id := range keyDefs {
		if k.Trailer == keyTrailer[id] && string(k.Suffix) == keyDefs[id].suf && string(k.Value) == keyDefs[id].val {
			return id
		}
	}
	return -1
}

func pairID(k *keyspan.Key) int {
	for i, p := range pairs {
		if string(k.Suffix) == p[0] && string(k.Value) == p[1] {
			return i
		}
	}
	return -1
}

// ---------------------------------------------------------------------------------------------
// Cases

// In is one input span: interval id and menu entry.
type In struct {
	Iv   int `json:"iv"`
	Menu int `json:"menu"`
}

// Case is the replay artefact: the input spans in Add order. The remaining members describe where
// the first disagreement was seen; replay re-runs every layer on the inputs.
type Case struct {
	Spans  []In     `json:"spans"`
	Text   string   `json:"text"`
	Layer  string   `json:"layer,omitempty"`
	Param  string   `json:"param,omitempty"`
	Ops    []string `json:"ops,omitempty"`
	Thor   bool     `json:"thorough"`
	Levels bool     `json:"leveliter"`
}

func (in In) String() string {
	var b strings.Builder
	iv := ivals[in.Iv]
	fmt.Fprintf(&b, "%s-%s:{", ukeys[iv[0]], ukeys[iv[1]])
	for i, id := range menu[in.Menu] {
		if i > 0 {
			b.WriteByte(' ')
		}
		b.WriteString(keyName(id))
	}
	b.WriteByte('}')
	return b.String()
}

func keyName(id int) string {
	d := keyDefs[id]
	s := fmt.Sprintf("(#%d,%s", d.seq, d.kind)
	if d.suf != "" {
		s += "," + d.suf
	}
	if d.val != "" {
		s += "," + d.val
	}
	return s + ")"
}

func caseText(spans []In) string {
	var parts []string
	for _, s := range spans {
		parts = append(parts, s.String())
	}
	return strings.Join(parts, " ")
}

// shapes[n] = all interval sequences of length n with non-decreasing start key, lexicographic.
func shapesOf(n int) [][]int {
	var out [][]int
	cur := make([]int, n)
	var rec func(i, minStart int)
	rec = func(i, minStart int) {
		if i == n {
			out = append(out, append([]int(nil), cur...))
			return
		}
		for iv := 0; iv < 6; iv++ {
			if ivals[iv][0] < minStart {
				continue
			}
			cur[i] = iv
			rec(i+1, ivals[iv][0])
		}
	}
	rec(0, 0)
	return out
}

type space struct {
	blocks []block // one per shape, simplest first
	total  int
}
type block struct {
	shape []int
	off   int
	size  int
}

func newSpace(maxN int) *space {
	sp := &space{}
	for n := 1; n <= maxN; n++ {
		size := 1
		for i := 0; i < n; i++ {
			size *= len(menu)
		}
		for _, sh := range shapesOf(n) {
			sp.blocks = append(sp.blocks, block{sh, sp.total, size})
			sp.total += size
		}
	}
	return sp
}

func (sp *space) decode(i int) []In {
	j := sort.Search(len(sp.blocks), func(j int) bool { return sp.blocks[j].off+sp.blocks[j].size > i })
	b := sp.blocks[j]
	r := i - b.off
	n := len(b.shape)
	out := make([]In, n)
	for k := n - 1; k >= 0; k-- {
		out[k] = In{Iv: b.shape[k], Menu: r % len(menu)}
		r /= len(menu)
	}
	return out
}

// ---------------------------------------------------------------------------------------------
// Observed spans

// fspan is an observed (or expected) span: bounds as universe indices, keys as a multiset code (4 bits
// of multiplicity per key id) and an order-sensitive hash of the key sequence.
type fspan struct {
	s, e int8
	code uint64
	ord  uint64
}

func boundIdx(b []byte) int {
	if len(b) != 1 || b[0] < 'a' || b[0] > 'd' {
		return -1
	}
	return int(b[0] - 'a')
}

// convTrailer converts a span whose keys must be in trailer-descending order.
func convTrailer(sp *keyspan.Span) (fspan, string) {
	var f fspan
	s, e := boundIdx(sp.Start), boundIdx(sp.End)
	if s < 0 || e < 0 {
		return f, fmt.Sprintf("shape: bound outside the universe in %s", sp)
	}
	f.s, f.e = int8(s), int8(e)
	if sp.KeysOrder != keyspan.ByTrailerDesc {
		return f, fmt.Sprintf("order: KeysOrder=%d, want ByTrailerDesc in %s", sp.KeysOrder, sp)
	}
	prev := ^base.InternalKeyTrailer(0)
	for i := range sp.Keys {
		k := &sp.Keys[i]
		id := keyID(k)
		if id < 0 {
			return f, fmt.Sprintf("coverage: key %s of %s is not a key of any input", k, sp)
		}
		if k.Trailer > prev {
			return f, fmt.Sprintf("order: keys of %s are not in trailer-descending order", sp)
		}
		prev = k.Trailer
		if (f.code>>(4*uint(id)))&15 == 15 {
			return f, fmt.Sprintf("coverage: key %s repeated more than 15 times in %s", k, sp)
		}
		f.code += 1 << (4 * uint(id))
		f.ord = f.ord*31 + uint64(id) + 1
	}
	return f, ""
}

// convLogical converts a span produced by the user-iteration stack: RANGEKEYSETs only, strictly
// ascending suffixes; the code is a bitmask over `pairs` (sequence numbers are not user visible).
func convLogical(sp *keyspan.Span) (fspan, string) {
	var f fspan
	s, e := boundIdx(sp.Start), boundIdx(sp.End)
	if s < 0 || e < 0 {
		return f, fmt.Sprintf("shape: bound outside the universe in %s", sp)
	}
	f.s, f.e = int8(s), int8(e)
	if len(sp.Keys) > 0 && sp.KeysOrder != keyspan.BySuffixAsc {
		return f, fmt.Sprintf("order: KeysOrder=%d, want BySuffixAsc in %s", sp.KeysOrder, sp)
	}
	prev := ""
	for i := range sp.Keys {
		k := &sp.Keys[i]
		if k.Kind() != kSet {
			return f, fmt.Sprintf("coverage: non-SET key %s surfaced by the user stack in %s", k, sp)
		}
		id := pairID(k)
		if id < 0 {
			return f, fmt.Sprintf("coverage: key %s of %s matches no input suffix/value", k, sp)
		}
		if i > 0 && string(k.Suffix) <= prev {
			return f, fmt.Sprintf("order: suffixes of %s not strictly ascending", sp)
		}
		prev = string(k.Suffix)
		f.code |= 1 << uint(id)
	}
	f.ord = f.code
	return f, ""
}

func codeString(code uint64) string {
	var ids []int
	for id := range keyDefs {
		for n := (code >> (4 * uint(id))) & 15; n > 0; n-- {
			ids = append(ids, id)
		}
	}
	sort.SliceStable(ids, func(i, j int) bool { return keyTrailer[ids[i]] > keyTrailer[ids[j]] })
	var parts []string
	for _, id := range ids {
		parts = append(parts, keyName(id))
	}
	return "{" + strings.Join(parts, " ") + "}"
}

func stateString(code uint64) string {
	var parts []string
	for i, p := range pairs {
		if code&(1<<uint(i)) != 0 {
			parts = append(parts, p[0]+"="+p[1])
		}
	}
	return "{" + strings.Join(parts, " ") + "}"
}

func (f fspan) str(logical bool) string {
	if logical {
		return fmt.Sprintf("%s-%s:%s", ukeys[f.s], ukeys[f.e], stateString(f.code))
	}
	return fmt.Sprintf("%s-%s:%s", ukeys[f.s], ukeys[f.e], codeString(f.code))
}

func listString(l []fspan, logical bool) string {
	var parts []string
	for _, f := range l {
		parts = append(parts, f.str(logical))
	}
	return "[" + strings.Join(parts, " ") + "]"
}

// coalesceModel is the reference for the user-visible state of a key multiset at a snapshot: keys with
// seqnum >= snapshot are invisible; walking in trailer-descending order, a RANGEKEYDEL hides
// everything after it; per suffix the first key wins; only SETs are visible.
func coalesceModel(code uint64, snapshot uint64) uint64 {
	var ids []int
	for id := range keyDefs {
		if (code>>(4*uint(id)))&15 > 0 && keyDefs[id].seq < snapshot {
			ids = append(ids, id)
		}
	}
	sort.Slice(ids, func(i, j int) bool { return keyTrailer[ids[i]] > keyTrailer[ids[j]] })
	var state uint64
	seen := map[string]bool{}
	for _, id := range ids {
		d := keyDefs[id]
		if d.kind == kDel {
			break
		}
		if seen[d.suf] {
			continue
		}
		seen[d.suf] = true
		if d.kind == kSet {
			for i, p := range pairs {
				if p[0] == d.suf && p[1] == d.val {
					state |= 1 << uint(i)
				}
			}
		}
	}
	return state
}

// ---------------------------------------------------------------------------------------------
// Iterator operations and the cursor model

const (
	opFirst = 0
	opLast  = 1
	opNext  = 2
	opPrev  = 3
	opGE    = 4  // +j
	opLT    = 13 // +j
	nOps    = 22
)

func opName(op uint8) string {
	switch {
	case op == opFirst:
		return "First"
	case op == opLast:
		return "Last"
	case op == opNext:
		return "Next"
	case op == opPrev:
		return "Prev"
	case op < opLT:
		return fmt.Sprintf("SeekGE(%s)", seekKeys[op-opGE])
	default:
		return fmt.Sprintf("SeekLT(%s)", seekKeys[op-opLT])
	}
}

func opNames(ops []uint8) []string {
	out := make([]string, len(ops))
	for i, o := range ops {
		out[i] = opName(o)
	}
	return out
}

func doOp(it keyspan.FragmentIterator, op uint8) (*keyspan.Span, error) {
	switch {
	case op == opFirst:
		return it.First()
	case op == opLast:
		return it.Last()
	case op == opNext:
		return it.Next()
	case op == opPrev:
		return it.Prev()
	case op < opLT:
		return it.SeekGE(seekKeys[op-opGE])
	default:
		return it.SeekLT(seekKeys[op-opLT])
	}
}

const unpositioned = -2

// step is the cursor model over a span list: positions -1 (before the first) .. n (after the last).
// Relative moves are illegal (left undefined by the FragmentIterator contract) on an unpositioned
// iterator, Next when exhausted forward, Prev when exhausted backward.
func step(list []fspan, pos int, op uint8) (int, bool) {
	n := len(list)
	switch {
	case op == opFirst:
		return 0, true
	case op == opLast:
		return n - 1, true
	case op == opNext:
		if pos == unpositioned || pos >= n {
			return pos, false
		}
		return pos + 1, true
	case op == opPrev:
		if pos == unpositioned || pos < 0 {
			return pos, false
		}
		return pos - 1, true
	case op < opLT:
		r := int(op - opGE)
		for i := range list {
			if int(list[i].e)*2+1 > r {
				return i, true
			}
		}
		return n, true
	default:
		r := int(op - opLT)
		for i := n - 1; i >= 0; i-- {
			if int(list[i].s)*2+1 < r {
				return i, true
			}
		}
		return -1, true
	}
}

var absOps []uint8
var probePaths [][]uint8 // full: every absolute positioning x every Next/Prev walk of length 3
var litePaths [][]uint8  // lite: every absolute positioning x walks of length 2, First/Last x walks of length 3
var deepPaths [][]uint8  // every pair of absolute positionings followed by one relative step

func init() {
	absOps = append(absOps, opFirst, opLast)
	for j := 0; j < 9; j++ {
		absOps = append(absOps, uint8(opGE+j))
	}
	for j := 0; j < 9; j++ {
		absOps = append(absOps, uint8(opLT+j))
	}
	// every absolute positioning followed by every Next/Prev walk of length 3 (prefixes are checked
	// on the way; a walk stops where it would leave the contract).
	for _, a := range absOps {
		for w := 0; w < 8; w++ {
			p := []uint8{a}
			for b := 0; b < 3; b++ {
				if w&(4>>uint(b)) == 0 {
					p = append(p, opNext)
				} else {
					p = append(p, opPrev)
				}
			}
			probePaths = append(probePaths, p)
			if a == opFirst || a == opLast {
				litePaths = append(litePaths, p)
			} else if w%2 == 0 {
				litePaths = append(litePaths, p[:3])
			}
		}
	}
	// every pair of absolute positionings followed by one relative step.
	for _, a := range absOps {
		for _, b := range absOps {
			deepPaths = append(deepPaths, []uint8{a, b, opNext}, []uint8{a, b, opPrev})
		}
	}
}

// ---------------------------------------------------------------------------------------------
// Running one case

type failure struct {
	class string
	desc  string
	layer string
	param string
	ops   []string
}

type caseRun struct {
	c        *vlib.Ctx
	spans    []In
	thorough bool
	levelIt  bool
	verbose  bool
	full     bool // full probe paths (else lite)
	deep     bool // additionally the pairs of absolute positionings
	expCov   [3]uint64
	fails    []failure
	trans    int
	states   []uint64
	outcomes map[string]int64
	hist     []uint8
}

func (r *caseRun) fail(layer, kind, param, desc string, ops []uint8) {
	r.fails = append(r.fails, failure{class: layer + "-" + kind, desc: desc, layer: layer, param: param, ops: opNames(ops)})
}

func (r *caseRun) state(h uint64) {
	for _, x := range r.states {
		if x == h {
			return
		}
	}
	r.states = append(r.states, h)
}

func (r *caseRun) inputSpans(sel func(i int) bool) []keyspan.Span {
	var out []keyspan.Span
	for i, in := range r.spans {
		if !sel(i) {
			continue
		}
		iv := ivals[in.Iv]
		var keys []keyspan.Key
		for _, id := range menu[in.Menu] {
			keys = append(keys, mkKey(id))
		}
		out = append(out, keyspan.Span{Start: []byte{'a' + byte(iv[0])}, End: []byte{'a' + byte(iv[1])}, Keys: keys})
	}
	return out
}

// fragment runs the real Fragmenter over spans (already in a legal Add order).
func fragment(spans []keyspan.Span) (out []keyspan.Span, panicked string) {
	defer func() {
		if p := recover(); p != nil {
			panicked = fmt.Sprint(p)
		}
	}()
	f := keyspan.Fragmenter{Cmp: cmp, Format: comparer.FormatKey, Emit: func(s keyspan.Span) { out = append(out, s) }}
	for _, s := range spans {
		f.Add(s)
		r := f.Empty() // exercise the accessors too
		_ = r
	}
	f.Finish()
	return out, ""
}

// checkList checks shape and per-interval coverage of a converted list. lo/hi are the bounds (universe
// indices) the spans must stay within. It returns "" or "kind: description".
func checkList(list []fspan, exp [3]uint64, lo, hi int, logical bool) string {
	var got [3]uint64
	var covered [3]bool
	for i, f := range list {
		if f.s >= f.e {
			return fmt.Sprintf("shape: empty or inverted span %s", f.str(logical))
		}
		if int(f.s) < lo || int(f.e) > hi {
			return fmt.Sprintf("shape: span %s outside the bounds [%s,%s)", f.str(logical), ukeys[lo], ukeys[hi])
		}
		if i > 0 && list[i-1].e > f.s {
			return fmt.Sprintf("shape: spans %s and %s unsorted or overlapping", list[i-1].str(logical), f.str(logical))
		}
		for e := f.s; e < f.e; e++ {
			got[e] = f.code
			covered[e] = true
		}
	}
	for e := 0; e < 3; e++ {
		if got[e] != exp[e] {
			g, w := codeString(got[e]), codeString(exp[e])
			if logical {
				g, w = stateString(got[e]), stateString(exp[e])
			}
			if !covered[e] {
				g = "no span"
			}
			return fmt.Sprintf("coverage: over [%s,%s) the output has %s, the inputs covering it have %s", ukeys[e], ukeys[e+1], g, w)
		}
	}
	return ""
}

// maximal reports an abutting pair of non-empty spans with identical key sequences.
func maximal(list []fspan, logical bool) string {
	for i := 1; i < len(list); i++ {
		a, b := list[i-1], list[i]
		if a.e == b.s && a.code != 0 && a.code == b.code && a.ord == b.ord {
			return fmt.Sprintf("maximal: abutting spans %s and %s have equal keys but were not defragmented", a.str(logical), b.str(logical))
		}
	}
	return ""
}

func splitKind(msg string) (string, string) {
	if i := strings.Index(msg, ": "); i > 0 {
		return msg[:i], msg[i+2:]
	}
	return "shape", msg
}

type layerSpec struct {
	layer   string
	param   string
	mk      func() keyspan.FragmentIterator
	cv      func(*keyspan.Span) (fspan, string)
	logical bool
	exp     [3]uint64
	lo, hi  int
	maximal bool
}

// runLayer lists the iterator forward, validates the listing against the oracle and then probes
// positioning sequences against the cursor model. It returns the listing (nil, false on failure).
func (r *caseRun) runLayer(ls *layerSpec) (list []fspan, ok bool) {
	defer func() {
		if p := recover(); p != nil {
			r.fail(ls.layer, "panic", ls.param, fmt.Sprintf("%s %s: panic: %v", ls.layer, ls.param, p), r.hist)
			list, ok = nil, false
		}
	}()
	r.hist = r.hist[:0]
	it := ls.mk()
	r.hist = append(r.hist, opFirst)
	s, err := it.First()
	r.trans++
	for s != nil {
		if len(list) > 12 {
			r.fail(ls.layer, "nontermination", ls.param, fmt.Sprintf("%s %s: First/Next* returned more than 12 spans", ls.layer, ls.param), r.hist)
			return nil, false
		}
		f, msg := ls.cv(s)
		if msg != "" {
			kind, d := splitKind(msg)
			r.fail(ls.layer, kind, ls.param, fmt.Sprintf("%s %s: %s (forward listing so far %s)", ls.layer, ls.param, d, listString(list, ls.logical)), r.hist)
			return nil, false
		}
		list = append(list, f)
		r.hist = append(r.hist, opNext)
		s, err = it.Next()
		r.trans++
	}
	if err != nil {
		r.fail(ls.layer, "error", ls.param, fmt.Sprintf("%s %s: error %v", ls.layer, ls.param, err), r.hist)
		return nil, false
	}
	it.Close()
	if r.verbose {
		fmt.Printf("  %-16s %-28s -> %s\n", ls.layer, ls.param, listString(list, ls.logical))
	}
	if msg := checkList(list, ls.exp, ls.lo, ls.hi, ls.logical); msg != "" {
		kind, d := splitKind(msg)
		r.fail(ls.layer, kind, ls.param, fmt.Sprintf("%s %s: %s; forward listing %s", ls.layer, ls.param, d, listString(list, ls.logical)), r.hist)
		return nil, false
	}
	if ls.maximal {
		if msg := maximal(list, ls.logical); msg != "" {
			kind, d := splitKind(msg)
			r.fail(ls.layer, kind, ls.param, fmt.Sprintf("%s %s: %s; forward listing %s", ls.layer, ls.param, d, listString(list, ls.logical)), r.hist)
			return nil, false
		}
	}
	if !r.probe(ls, list) {
		return list, false
	}
	return list, true
}

// probe runs the positioning paths on ONE iterator (every path starts with an absolute positioning
// operation, so the concatenation is itself a legal sequence) and compares every result with the
// cursor model over list. A disagreement is re-run on a fresh iterator to report the short path.
func (r *caseRun) probe(ls *layerSpec, list []fspan) bool {
	r.hist = r.hist[:0]
	it := ls.mk()
	check := func(it keyspan.FragmentIterator, path []uint8, record bool) (int, string) {
		pos := unpositioned
		for j, op := range path {
			np, legal := step(list, pos, op)
			if !legal {
				return -1, ""
			}
			pos = np
			if record {
				r.hist = append(r.hist, op)
				r.trans++
			}
			s, err := doOp(it, op)
			if err != nil {
				return j, fmt.Sprintf("error %v", err)
			}
			var want *fspan
			if pos >= 0 && pos < len(list) {
				want = &list[pos]
			}
			switch {
			case s == nil && want == nil:
			case s == nil:
				return j, fmt.Sprintf("returned nil, the cursor model over the forward listing expects %s", want.str(ls.logical))
			case want == nil:
				return j, fmt.Sprintf("returned %s, the cursor model over the forward listing expects nil", s)
			default:
				f, msg := ls.cv(s)
				if msg != "" {
					return j, msg
				}
				if f.s != want.s || f.e != want.e || f.code != want.code {
					return j, fmt.Sprintf("returned %s, the cursor model over the forward listing expects %s", f.str(ls.logical), want.str(ls.logical))
				}
			}
		}
		return -1, ""
	}
	paths := litePaths
	if r.full {
		paths = probePaths
	}
	for pass := 0; pass < 2; pass++ {
		for _, p := range paths {
			if j, msg := check(it, p, true); msg != "" {
				// reproduce on a fresh iterator
				if j2, msg2 := check(ls.mk(), p, false); msg2 != "" {
					r.fail(ls.layer, "position", ls.param, fmt.Sprintf("%s %s: after %v: %s; forward listing %s", ls.layer, ls.param, opNames(p[:j2+1]), msg2, listString(list, ls.logical)), p[:j2+1])
				} else {
					r.fail(ls.layer, "position", ls.param, fmt.Sprintf("%s %s: after %v on a used iterator (%d earlier operations, see ops; not reproduced on a fresh iterator): %s; forward listing %s", ls.layer, ls.param, opNames(p[:j+1]), len(r.hist)-j-1, msg, listString(list, ls.logical)), r.hist)
				}
				return false
			}
		}
		if !r.deep {
			break
		}
		paths = deepPaths
	}
	it.Close()
	return true
}

// assignments of n items to levels 0..2; canonical = restricted growth strings only.
func assignments(n int, canonical bool) [][]int {
	var out [][]int
	cur := make([]int, n)
	var rec func(i, mx int)
	rec = func(i, mx int) {
		if i == n {
			out = append(out, append([]int(nil), cur...))
			return
		}
		for l := 0; l < 3; l++ {
			if canonical && l > mx+1 {
				break
			}
			cur[i] = l
			m := mx
			if l > m {
				m = l
			}
			rec(i+1, m)
		}
	}
	rec(0, -1)
	return out
}

func isCanonical(a []int) bool {
	mx := -1
	for _, l := range a {
		if l > mx+1 {
			return false
		}
		if l > mx {
			mx = l
		}
	}
	return true
}

var assignAll, assignCanon [5][][]int

func init() {
	for n := 1; n <= 4; n++ {
		assignAll[n] = assignments(n, false)
		assignCanon[n] = assignments(n, true)
	}
}

func restrict(exp [3]uint64, lo, hi int) [3]uint64 {
	for e := 0; e < 3; e++ {
		if e < lo || e >= hi {
			exp[e] = 0
		}
	}
	return exp
}

// splitAt cuts every fragment that contains a cut point (universe index with its bit set in mask)
// strictly inside: physical fragmentation, as sstable boundaries produce.
func splitAt(frags []keyspan.Span, mask int) []keyspan.Span {
	var out []keyspan.Span
	for _, f := range frags {
		s, e := boundIdx(f.Start), boundIdx(f.End)
		cur := s
		for p := s + 1; p < e; p++ {
			if mask&(1<<uint(p)) != 0 {
				out = append(out, keyspan.Span{Start: ukeys[cur], End: ukeys[p], Keys: f.Keys, KeysOrder: f.KeysOrder})
				cur = p
			}
		}
		out = append(out, keyspan.Span{Start: ukeys[cur], End: ukeys[e], Keys: f.Keys, KeysOrder: f.KeysOrder})
	}
	return out
}

func (r *caseRun) run() {
	n := len(r.spans)
	for _, in := range r.spans {
		iv := ivals[in.Iv]
		for e := iv[0]; e < iv[1]; e++ {
			r.expCov[e] += menuCode[in.Menu]
		}
	}
	full := r.expCov
	for e := 0; e < 3; e++ {
		if full[e]&0xf != 0 && (full[e]>>(4*9))&0xf != 0 {
			r.outcomes["skipped: same (seqnum, kind, suffix) with different values over one interval (undefined)"]++
			return
		}
	}
	if r.verbose {
		fmt.Printf("inputs: %s\n", caseText(r.spans))
		for e := 0; e < 3; e++ {
			fmt.Printf("  expected over [%s,%s): %s\n", ukeys[e], ukeys[e+1], codeString(full[e]))
		}
	}

	// ---- layer 1: the Fragmenter itself
	frags, pmsg := fragment(r.inputSpans(func(int) bool { return true }))
	r.trans += n + 1
	if pmsg != "" {
		r.fail("fragmenter", "panic", "", "Fragmenter panicked: "+pmsg, nil)
		return
	}
	var flist []fspan
	for i := range frags {
		f, msg := convTrailer(&frags[i])
		if msg == "" && len(frags[i].Keys) == 0 {
			msg = fmt.Sprintf("shape: fragment %s has no keys", &frags[i])
		}
		if msg != "" {
			kind, d := splitKind(msg)
			r.fail("fragmenter", kind, "", "Fragmenter output: "+d, nil)
			return
		}
		flist = append(flist, f)
	}
	if r.verbose {
		fmt.Printf("  %-16s %-28s -> %s\n", "fragmenter", "", listString(flist, false))
	}
	if msg := checkList(flist, full, 0, 3, false); msg != "" {
		kind, d := splitKind(msg)
		r.fail("fragmenter", kind, "", fmt.Sprintf("Fragmenter output %s: %s", listString(flist, false), d), nil)
		return
	}
	r.state(vlib.Hash("F", fmt.Sprint(flist)))
	r.outcomes[fmt.Sprintf("fragmenter/%d-fragments", len(flist))]++

	r.deep = n <= 2
	r.full = n <= 2 || (r.thorough && n <= 3)

	// ---- layer 2: keyspan.Iter over the fragments
	if _, ok := r.runLayer(&layerSpec{layer: "iter", mk: func() keyspan.FragmentIterator { return keyspan.NewIter(cmp, frags) },
		cv: convTrailer, exp: full, lo: 0, hi: 3}); !ok {
		return
	}

	// ---- layer 3: Truncate, all bound pairs (exclusive end; inclusive end where its precondition holds)
	for lo := 0; lo < 3; lo++ {
		for hi := lo + 1; hi <= 3; hi++ {
			for incl := 0; incl < 2; incl++ {
				var b base.UserKeyBounds
				if incl == 0 {
					b = base.UserKeyBoundsEndExclusive(ukeys[lo], ukeys[hi])
				} else {
					// An inclusive end key must not be contained in any span of the input iterator.
					if hi < 3 && full[hi] != 0 {
						continue
					}
					b = base.UserKeyBoundsInclusive(ukeys[lo], ukeys[hi])
				}
				param := b.String()
				list, ok := r.runLayer(&layerSpec{layer: "truncate", param: param,
					mk: func() keyspan.FragmentIterator {
						return keyspan.Truncate(cmp, keyspan.NewIter(cmp, frags), b)
					}, cv: convTrailer, exp: restrict(full, lo, hi), lo: lo, hi: hi})
				if !ok {
					return
				}
				r.state(vlib.Hash("T", fmt.Sprint(list)))
				switch {
				case len(list) == 0:
					r.outcomes["truncate/nothing-in-bounds"]++
				case fmt.Sprint(list) == fmt.Sprint(flist):
					r.outcomes["truncate/unchanged"]++
				default:
					r.outcomes["truncate/cut"]++
				}
			}
		}
	}

	// ---- layer 4: DefragmentInternal over physically split fragments
	seenMask := map[string]bool{}
	for mask := 0; mask < 8; mask += 2 { // cut points b (bit 1) and c (bit 2)
		in := splitAt(frags, mask)
		key := fmt.Sprint(len(in), mask&effectiveMask(frags))
		if seenMask[key] {
			continue
		}
		seenMask[key] = true
		list, ok := r.runLayer(&layerSpec{layer: "defrag-internal", param: fmt.Sprintf("input=%s", spansString(in)),
			mk: func() keyspan.FragmentIterator {
				d := &keyspan.DefragmentingIter{}
				d.Init(comparer, keyspan.NewIter(cmp, in), keyspan.DefragmentInternal, keyspan.StaticDefragmentReducer, new(keyspan.DefragmentingBuffers))
				return d
			}, cv: convTrailer, exp: full, lo: 0, hi: 3, maximal: true})
		if !ok {
			return
		}
		r.state(vlib.Hash("D", fmt.Sprint(list)))
		if len(list) < len(in) {
			r.outcomes["defrag-internal/joined-fragments"]++
		} else {
			r.outcomes["defrag-internal/nothing-to-join"]++
		}
	}

	// ---- layers 5-7: the inputs distributed over <= 3 levels, each level fragmented on its own
	assigns := assignAll[n]
	if n >= 4 {
		assigns = assignCanon[n]
	}
	for _, a := range assigns {
		nl := 0
		for _, l := range a {
			if l+1 > nl {
				nl = l + 1
			}
		}
		levels := make([][]keyspan.Span, nl)
		for l := 0; l < nl; l++ {
			var pm string
			levels[l], pm = fragment(r.inputSpans(func(i int) bool { return a[i] == l }))
			if pm != "" {
				r.fail("fragmenter", "panic", fmt.Sprint(a), fmt.Sprintf("Fragmenter panicked on the spans of level %d of assignment %v: %s", l, a, pm), nil)
				return
			}
		}
		param := fmt.Sprintf("levels=%v", a)
		childIters := func() []keyspan.FragmentIterator {
			iters := make([]keyspan.FragmentIterator, nl)
			for l := range iters {
				iters[l] = keyspan.NewIter(cmp, levels[l])
			}
			return iters
		}
		mkMerging := func() keyspan.FragmentIterator {
			m := &keyspanimpl.MergingIter{}
			m.Init(comparer, keyspan.NoopTransform, new(keyspanimpl.MergingBuffers), childIters()...)
			return m
		}
		list, ok := r.runLayer(&layerSpec{layer: "merging", param: param, mk: mkMerging, cv: convTrailer, exp: full, lo: 0, hi: 3})
		if !ok {
			return
		}
		r.state(vlib.Hash("M", nl, fmt.Sprint(list)))
		r.outcomes[fmt.Sprintf("merging/%d-levels", nl)]++

		if !isCanonical(a) {
			continue // the remaining layers do not depend on the order of the levels
		}

		// compaction-style: DefragmentInternal over the merged levels
		dlist, ok := r.runLayer(&layerSpec{layer: "defrag-merging", param: param,
			mk: func() keyspan.FragmentIterator {
				d := &keyspan.DefragmentingIter{}
				d.Init(comparer, mkMerging(), keyspan.DefragmentInternal, keyspan.StaticDefragmentReducer, new(keyspan.DefragmentingBuffers))
				return d
			}, cv: convTrailer, exp: full, lo: 0, hi: 3, maximal: true})
		if !ok {
			return
		}
		r.state(vlib.Hash("DM", fmt.Sprint(dlist)))
		if len(dlist) < len(list) {
			r.outcomes["defrag-merging/joined-fragments"]++
		} else {
			r.outcomes["defrag-merging/nothing-to-join"]++
		}

		// user-iteration stack with the logical equality method
		{
			snaps := []uint64{uint64(base.SeqNumMax), 6}
			if n >= 4 && nl > 1 {
				snaps = snaps[:1] // 4 spans: the second snapshot only with all spans in one level
			}
			for _, snap := range snaps {
				var exp [3]uint64
				for e := 0; e < 3; e++ {
					exp[e] = coalesceModel(full[e], snap)
				}
				sparam := fmt.Sprintf("%s snapshot=%d", param, snap)
				llist, ok := r.runLayer(&layerSpec{layer: "defrag-logical", param: sparam,
					mk: func() keyspan.FragmentIterator {
						ui := &rangekeystack.UserIteratorConfig{}
						return ui.Init(comparer, base.SeqNum(snap), nil, nil, nil, nil, false, &rangekeystack.Buffers{}, childIters()...)
					}, cv: convLogical, logical: true, exp: exp, lo: 0, hi: 3, maximal: true})
				if !ok {
					return
				}
				r.state(vlib.Hash("L", fmt.Sprint(llist)))
				empties := 0
				for _, f := range llist {
					if f.code == 0 {
						empties++
					}
				}
				switch {
				case len(llist) < len(dlist):
					r.outcomes["defrag-logical/joined-more-than-internal"]++
				case empties > 0:
					r.outcomes["defrag-logical/has-empty-span"]++
				default:
					r.outcomes["defrag-logical/same-shape-as-internal"]++
				}
			}
		}

		// LevelIter: every level's fragments cut into files, straddle spans between files
		if r.levelIt && n <= 3 && isCanonical(a) {
			if !r.runLevelIters(a, levels, full) {
				return
			}
		}
	}
}

func effectiveMask(frags []keyspan.Span) int {
	m := 0
	for _, f := range frags {
		for p := boundIdx(f.Start) + 1; p < boundIdx(f.End); p++ {
			m |= 1 << uint(p)
		}
	}
	return m
}

func spansString(l []keyspan.Span) string {
	var parts []string
	for _, s := range l {
		parts = append(parts, s.String())
	}
	return "[" + strings.Join(parts, " ") + "]"
}

// ---------------------------------------------------------------------------------------------
// LevelIter: the fragments of a level are distributed over files (every way of cutting the fragment
// list into <= 2 contiguous files); the LevelIter alone must list the fragments plus empty straddle
// spans in file gaps, and MergingIter over LevelIters must preserve coverage.

func mkFileMeta(num int, frags []keyspan.Span) *manifest.TableMetadata {
	meta := &manifest.TableMetadata{
		TableNum:              base.FileNum(num),
		Size:                  1024,
		SeqNums:               base.SeqNumRange{Low: 2, High: 8},
		LargestSeqNumAbsolute: 8,
	}
	meta.InitPhysicalBacking()
	first, last := frags[0], frags[len(frags)-1]
	meta.ExtendRangeKeyBounds(cmp, manifest.AnyRangeKeys, first.SmallestKey(), last.LargestKey())
	return meta
}

type fileSet struct {
	files [][]keyspan.Span
	metas []*manifest.TableMetadata
}

func (fs *fileSet) levelIter() keyspan.FragmentIterator {
	newIter := func(_ context.Context, file *manifest.TableMetadata, _ keyspan.SpanIterOptions) (keyspan.FragmentIterator, error) {
		return keyspan.NewIter(cmp, fs.files[int(file.TableNum)-1]), nil
	}
	ls := manifest.NewLevelSliceKeySorted(cmp, fs.metas)
	return keyspanimpl.NewLevelIter(context.Background(), keyspan.SpanIterOptions{}, cmp, newIter, ls.Iter(), manifest.Level(6), manifest.KeyTypeRange)
}

func cutIntoFiles(frags []keyspan.Span, cut int) *fileSet {
	fs := &fileSet{}
	if cut <= 0 || cut >= len(frags) {
		fs.files = [][]keyspan.Span{frags}
	} else {
		fs.files = [][]keyspan.Span{frags[:cut], frags[cut:]}
	}
	for i, f := range fs.files {
		fs.metas = append(fs.metas, mkFileMeta(i+1, f))
	}
	return fs
}

func (r *caseRun) runLevelIters(a []int, levels [][]keyspan.Span, full [3]uint64) bool {
	// all combinations of cut positions (0 = one file) over the non-empty levels
	var radices []int
	for _, l := range levels {
		if len(l) == 0 {
			radices = append(radices, 1)
		} else {
			radices = append(radices, len(l))
		}
	}
	ok := true
	vlib.Product(radices, func(d []int) {
		if !ok {
			return
		}
		sets := make([]*fileSet, len(levels))
		for l := range levels {
			if len(levels[l]) > 0 {
				sets[l] = cutIntoFiles(levels[l], d[l])
			}
		}
		param := fmt.Sprintf("levels=%v filecuts=%v", a, d)
		// the LevelIter of every level alone: coverage of that level's inputs
		for l := range levels {
			if sets[l] == nil || d[l] == 0 && len(levels) > 1 {
				continue // single-file levels are exercised when they are the only level
			}
			var exp [3]uint64
			for i, in := range r.spans {
				if a[i] != l {
					continue
				}
				for e := ivals[in.Iv][0]; e < ivals[in.Iv][1]; e++ {
					exp[e] += menuCode[in.Menu]
				}
			}
			fs := sets[l]
			list, lok := r.runLayer(&layerSpec{layer: "leveliter", param: fmt.Sprintf("%s level=%d", param, l),
				mk: fs.levelIter, cv: convTrailer, exp: exp, lo: 0, hi: 3})
			if !lok {
				ok = false
				return
			}
			r.state(vlib.Hash("LI", fmt.Sprint(list)))
			straddle := false
			for _, f := range list {
				if f.code == 0 {
					straddle = true
				}
			}
			if straddle {
				r.outcomes["leveliter/with-straddle-span"]++
			} else {
				r.outcomes["leveliter/no-straddle-span"]++
			}
		}
		multi := false
		for l := range levels {
			if d[l] > 0 {
				multi = true
			}
		}
		if !multi {
			return
		}
		list, lok := r.runLayer(&layerSpec{layer: "merging-leveliter", param: param,
			mk: func() keyspan.FragmentIterator {
				iters := make([]keyspan.FragmentIterator, len(levels))
				for l := range levels {
					if sets[l] == nil {
						iters[l] = keyspan.NewIter(cmp, nil)
					} else {
						iters[l] = sets[l].levelIter()
					}
				}
				m := &keyspanimpl.MergingIter{}
				m.Init(comparer, keyspan.NoopTransform, new(keyspanimpl.MergingBuffers), iters...)
				return m
			}, cv: convTrailer, exp: full, lo: 0, hi: 3})
		if !lok {
			ok = false
			return
		}
		r.state(vlib.Hash("ML", fmt.Sprint(list)))
		r.outcomes["merging-leveliter/runs"]++
	})
	return ok
}

// ---------------------------------------------------------------------------------------------

func nontrivial(spans []In) bool {
	for i := range spans {
		for j := i + 1; j < len(spans); j++ {
			a, b := ivals[spans[i].Iv], ivals[spans[j].Iv]
			if a != b && a[0] < b[1] && b[0] < a[1] {
				return true
			}
		}
	}
	return false
}

func runCase(c *vlib.Ctx, spans []In, thorough, levelIt, verbose bool) *caseRun {
	r := &caseRun{c: c, spans: spans, thorough: thorough, levelIt: levelIt, verbose: verbose, outcomes: map[string]int64{}}
	r.run()
	return r
}

func gcPercent() int {
	if s := os.Getenv("C32_GOGC"); s != "" {
		n, _ := strconv.Atoi(s)
		return n
	}
	return 1600
}

func TestCheck(t *testing.T) {
	vlib.Main(t, "C32", func(c *vlib.Ctx) {
		if c.ReplayPath() != "" {
			var cs Case
			if err := c.LoadReplay(&cs); err != nil {
				t.Fatal(err)
			}
			r := runCase(c, cs.Spans, cs.Thor, cs.Levels, true)
			c.Eval(1)
			c.Trans(r.trans)
			for _, f := range r.fails {
				fmt.Printf("replay: VIOLATION class=%s %s\n  ops=%v\n", f.class, f.desc, f.ops)
				out := cs
				out.Layer, out.Param, out.Ops = f.layer, f.param, f.ops
				c.Violation(f.class, "inputs "+caseText(cs.Spans)+": "+f.desc, out)
			}
			if len(r.fails) == 0 {
				fmt.Printf("replay: all layers agree with the oracle\n")
			}
			return
		}
		// The cases allocate many short-lived iterators over a tiny live heap: collect by memory
		// limit instead of by heap growth (the default spends a third of the CPU in GC barriers).
		debug.SetGCPercent(gcPercent())
		maxN := 3
		if c.Thorough() {
			maxN = 4
		}
		sp := newSpace(maxN)
		thorough := c.Thorough()
		done, complete := c.Each(sp.total, func(i int) {
			spans := sp.decode(i)
			r := runCase(c, spans, thorough, true, false)
			c.Eval(1)
			c.Trans(r.trans)
			for _, h := range r.states {
				c.State(h)
			}
			for k, v := range r.outcomes {
				c.OutcomeN(k, v)
			}
			if nontrivial(spans) {
				c.Nontrivial(vlib.Hash(fmt.Sprint(spans)))
			}
			if len(r.fails) > 0 {
				f := r.fails[0]
				// re-execute before reporting
				r2 := runCase(c, spans, thorough, true, false)
				if len(r2.fails) == 0 || r2.fails[0].class != f.class {
					c.Incomplete("violation did not reproduce: " + f.desc)
					return
				}
				cs := Case{Spans: spans, Text: caseText(spans), Layer: f.layer, Param: f.param, Ops: f.ops, Thor: thorough, Levels: true}
				c.Violation(f.class, "inputs "+caseText(spans)+": "+f.desc, cs)
				c.Outcome("violation/" + f.class)
			} else {
				c.Outcome("case/all-layers-agree")
			}
			if i%5003 == 0 || i == 1500 {
				c.Sample(map[string]any{"index": i, "inputs": caseText(spans)})
			}
		})
		if !complete {
			c.Incomplete(fmt.Sprintf("budget expired after %d of %d input sequences (enumerated in parallel, simplest first); all sequences of fewer spans than the last block were covered", done, sp.total))
		}
		c.Note("scope", fmt.Sprintf("all %d sequences of 1..%d input spans (6 intervals over {a,b,c,d}, non-decreasing start key, %d key sets per span): per sequence the Fragmenter, keyspan.Iter, Truncate x 6 bound pairs (x inclusive end where legal), DefragmentInternal over all physical splits at b/c, MergingIter for every assignment of the spans to <=3 levels (all 3^n for n<=3, set partitions for n=4), and per set partition DefragmentInternal over MergingIter, the user-iteration stack (2 snapshots; for 4 spans the second one only with a single level) and (n<=3) LevelIter file cuts; probe paths per iterator: %d full (n<=2 quick / n<=3 thorough), %d lite (largest n), %d more pairs of absolute positionings (n<=2)", sp.total, maxN, len(menu), len(probePaths), len(litePaths), len(deepPaths)))
		c.Note("cases_done", done)
	})
}
