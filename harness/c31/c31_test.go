// C31: batch encoding round-trips and rejects malformed input safely. Engine C (input enumeration).
//
// Part a  every op sequence over the batch alphabet: the representation equals an independently
//
//	written reference encoding, batchrepr.Reader / Batch.Reader yield the same records, Count
//	matches, SetRepr(copy) and Apply (every split point, plain / DB / indexed receiver)
//	reproduce the batch.
//
// Part c  the same sequence as a flushableBatch (WAL-replay style with the seqnum in the header, and
//
//	commit style with setSeqNum afterwards) against a memtable holding the batch at the same
//	seqnum, and both against a model: points forward/backward/flush-iter, range deletion and
//	range key fragments forward/backward.
//
// Part b  malformed input: header + every short tail, every single-byte substitution and every
//
//	truncation of valid representations, fed to every decoding entry point; error or success,
//	never a panic, and the accept/reject decision must agree with the reference decoder.
package c31

import (
	"bytes"
	"encoding/binary"
	"encoding/hex"
	"fmt"
	"runtime/debug"
	"strings"
	"sync"
	"testing"
	"time"

	"github.com/cockroachdb/pebble"
	"github.com/cockroachdb/pebble/batchrepr"
	"github.com/cockroachdb/pebble/internal/arenaskl"
	"github.com/cockroachdb/pebble/internal/base"
	"github.com/cockroachdb/pebble/internal/keyspan"
	"github.com/cockroachdb/pebble/internal/verif/vlib"
	"github.com/cockroachdb/pebble/record"
	"github.com/cockroachdb/pebble/vfs"
)

// ---------------------------------------------------------------------------------------------
// alphabet (simplest first). Values get the position appended so that records are distinguishable.

type sym struct {
	op     Op
	posVal bool // append the position to Val
}

var alphabet = []sym{
	{Op{K: "set", Key: "a", Val: "v"}, true},
	{Op{K: "set", Key: "b", Val: "v"}, true},
	{Op{K: "del", Key: "a"}, false},
	{Op{K: "merge", Key: "a", Val: "m"}, true},
	{Op{K: "delrange", Key: "a", End: "c"}, false},
	{Op{K: "sdel", Key: "a"}, false},
	{Op{K: "delsized", Key: "a", N: 3}, false},
	{Op{K: "logdata", Key: "x"}, false},
	{Op{K: "rkset", Key: "a", End: "c", Suf: "", Val: "r"}, true},
	{Op{K: "rkunset", Key: "a", End: "c", Suf: "@1"}, false},
	{Op{K: "rkdel", Key: "a", End: "c"}, false},
	{Op{K: "del", Key: "b"}, false},
	{Op{K: "merge", Key: "b", Val: "m"}, true},
	{Op{K: "sdel", Key: "b"}, false},
	{Op{K: "delsized", Key: "b", N: 300}, false},
	{Op{K: "delrange", Key: "b", End: "c"}, false},
	{Op{K: "delrange", Key: "a", End: "b"}, false},
	{Op{K: "rkset", Key: "b", End: "c", Suf: "@1", Val: "r"}, true},
	{Op{K: "rkunset", Key: "a", End: "b", Suf: ""}, false},
	{Op{K: "rkdel", Key: "b", End: "c"}, false},
	{Op{K: "logdata", Key: ""}, false},
	{Op{K: "set", Key: "a", Val: ""}, false}, // empty value
	{Op{K: "set", Key: "", Val: "e"}, true},  // empty key (special-cased by newFlushableBatch)
}

func seqOps(seq []int) []Op {
	ops := make([]Op, len(seq))
	for i, s := range seq {
		ops[i] = alphabet[s].op
		if alphabet[s].posVal {
			ops[i].Val += string(rune('0' + i))
		}
	}
	return ops
}

func isRange(k string) bool {
	return k == "delrange" || k == "rkset" || k == "rkunset" || k == "rkdel"
}

// nontrivialSeq: two point operations on one user key, or two range operations of one family
// (range deletions / range keys): the cases where ordering by sequence number and fragmentation matter.
func nontrivialSeq(ops []Op) bool {
	pts := map[string]int{}
	dels, rks := 0, 0
	for _, o := range ops {
		switch {
		case o.K == "logdata":
		case o.K == "delrange":
			dels++
		case isRange(o.K):
			rks++
		default:
			pts[o.Key]++
			if pts[o.Key] >= 2 {
				return true
			}
		}
	}
	return dels >= 2 || rks >= 2
}

// Case is the replay artefact.
type Case struct {
	Part   string `json:"part"` // "seq" (parts a and c) or "bytes" (part b)
	Ops    []Op   `json:"ops,omitempty"`
	Hex    string `json:"hex,omitempty"`
	Origin string `json:"origin,omitempty"`
	Entry  string `json:"entry,omitempty"`
}

type failure struct{ class, entry, desc string }

// ---------------------------------------------------------------------------------------------
// environment shared by all cases

type quietLogger struct{}

func (quietLogger) Infof(string, ...interface{})  {}
func (quietLogger) Errorf(string, ...interface{}) {}
func (quietLogger) Fatalf(f string, a ...interface{}) {
	panic(fmt.Sprintf("pebble Fatalf: "+f, a...))
}

type env struct {
	db      *pebble.DB
	cmp     *pebble.Comparer
	mtOpts  *pebble.Options
	tmpl    map[string][]byte // files of a cleanly closed empty DB
	walName string
	walNum  base.DiskFileNum
	cache   *pebble.Cache
	fcache  *pebble.FileCache
	emptySz uint64
}

func dbOpts(fs vfs.FS) *pebble.Options {
	return &pebble.Options{
		FS:                          fs,
		Comparer:                    pebble.DefaultComparer,
		FormatMajorVersion:          pebble.FormatNewest,
		DisableAutomaticCompactions: true,
		MemTableSize:                256 << 10,
		Logger:                      quietLogger{},
		CompactionScheduler: func() pebble.CompactionScheduler {
			return pebble.NewConcurrencyLimitSchedulerWithNoPeriodicGrantingForTest()
		},
	}
}

func newEnv() (*env, error) {
	e := &env{cmp: pebble.DefaultComparer}
	db, err := pebble.Open("live", dbOpts(vfs.NewMem()))
	if err != nil {
		return nil, err
	}
	e.db = db
	e.mtOpts = &pebble.Options{Comparer: pebble.DefaultComparer}
	e.mtOpts.EnsureDefaults()
	e.cache = pebble.NewCache(1 << 20)
	e.fcache = pebble.NewFileCache(1, 16)
	tfs := vfs.NewMem()
	o := dbOpts(tfs)
	o.MemTableSize = 64 << 10
	t, err := pebble.Open("t", o)
	if err != nil {
		return nil, err
	}
	e.emptySz = pebble.VerifC31MemTableEmptySize()
	if err := t.Close(); err != nil {
		return nil, err
	}
	ls, err := tfs.List("t")
	if err != nil {
		return nil, err
	}
	e.tmpl = map[string][]byte{}
	for _, name := range ls {
		f, err := tfs.Open(tfs.PathJoin("t", name))
		if err != nil {
			return nil, err
		}
		st, err := f.Stat()
		if err != nil {
			return nil, err
		}
		if st.IsDir() {
			f.Close()
			continue
		}
		buf := make([]byte, st.Size())
		if len(buf) > 0 {
			if _, err := f.ReadAt(buf, 0); err != nil {
				return nil, err
			}
		}
		f.Close()
		if strings.HasSuffix(name, ".log") {
			if e.walName != "" {
				return nil, fmt.Errorf("template DB has two WALs: %v", ls)
			}
			e.walName = name
			var n uint64
			fmt.Sscanf(name, "%d.log", &n)
			e.walNum = base.DiskFileNum(n)
			continue
		}
		e.tmpl[name] = buf
	}
	if e.walName == "" {
		return nil, fmt.Errorf("template DB has no WAL: %v", ls)
	}
	return e, nil
}

// openWithWAL opens (read-only, so that nothing but recovery runs) a copy of the template DB whose
// only WAL holds one record with the given bytes. large selects a MemTableSize for which every
// non-empty batch takes the large-batch (flushableBatch) branch of DB.replayWAL.
func (e *env) openWithWAL(x []byte, large bool) error {
	fs := vfs.NewMem()
	if err := fs.MkdirAll("t", 0o755); err != nil {
		return err
	}
	for name, data := range e.tmpl {
		f, err := fs.Create(fs.PathJoin("t", name), vfs.WriteCategoryUnspecified)
		if err != nil {
			return err
		}
		if _, err := f.Write(data); err != nil {
			return err
		}
		f.Close()
	}
	f, err := fs.Create(fs.PathJoin("t", e.walName), vfs.WriteCategoryUnspecified)
	if err != nil {
		return err
	}
	w := record.NewLogWriter(f, e.walNum, record.LogWriterConfig{
		WriteWALSyncOffsets: func() bool { return true },
	})
	if _, err := w.WriteRecord(x); err != nil {
		return fmt.Errorf("harness: writing the WAL: %w", err)
	}
	if err := w.Close(); err != nil {
		return fmt.Errorf("harness: closing the WAL: %w", err)
	}
	o := dbOpts(fs)
	o.ReadOnly = true
	o.Cache = e.cache
	o.FileCache = e.fcache
	if large {
		o.MemTableSize = e.emptySz + 2 // largeBatchThreshold == 1
	}
	d, err := pebble.Open("t", o)
	if err != nil {
		return err
	}
	return d.Close()
}

// ---------------------------------------------------------------------------------------------
// helpers

func guard(f func()) (p any, stack string) {
	defer func() {
		if r := recover(); r != nil {
			p = r
			stack = string(debug.Stack())
		}
	}()
	f()
	return nil, ""
}

func clone(b []byte) []byte { return append(make([]byte, 0, len(b)), b...) }

func readAll(r batchrepr.Reader) (es []ent, err error) {
	for {
		kind, k, v, ok, err := r.Next()
		if !ok {
			return es, err
		}
		es = append(es, ent{byte(kind), k, v})
	}
}

func applyOp(b *pebble.Batch, o Op) error {
	switch o.K {
	case "set":
		return b.Set([]byte(o.Key), []byte(o.Val), nil)
	case "merge":
		return b.Merge([]byte(o.Key), []byte(o.Val), nil)
	case "del":
		return b.Delete([]byte(o.Key), nil)
	case "sdel":
		return b.SingleDelete([]byte(o.Key), nil)
	case "delsized":
		return b.DeleteSized([]byte(o.Key), o.N, nil)
	case "delrange":
		return b.DeleteRange([]byte(o.Key), []byte(o.End), nil)
	case "logdata":
		return b.LogData([]byte(o.Key), nil)
	case "rkset":
		return b.RangeKeySet([]byte(o.Key), []byte(o.End), []byte(o.Suf), []byte(o.Val), nil)
	case "rkunset":
		return b.RangeKeyUnset([]byte(o.Key), []byte(o.End), []byte(o.Suf), nil)
	case "rkdel":
		return b.RangeKeyDelete([]byte(o.Key), []byte(o.End), nil)
	}
	return fmt.Errorf("unknown op %q", o.K)
}

func applyOps(b *pebble.Batch, ops []Op) error {
	for _, o := range ops {
		if err := applyOp(b, o); err != nil {
			return fmt.Errorf("%s: %w", o, err)
		}
	}
	return nil
}

func mkSpan(s *keyspan.Span) span {
	out := span{Start: string(s.Start), End: string(s.End)}
	for _, k := range s.Keys {
		out.Keys = append(out.Keys, spanKey{Seq: uint64(k.SeqNum()), Kind: byte(k.Kind()), Suf: string(k.Suffix), Val: string(k.Value)})
	}
	return out
}

func collectSpans(it keyspan.FragmentIterator) (fwd, bwd []span, err error) {
	if it == nil {
		return nil, nil, nil
	}
	defer it.Close()
	s, err := it.First()
	for ; s != nil && err == nil; s, err = it.Next() {
		fwd = append(fwd, mkSpan(s))
	}
	if err != nil {
		return nil, nil, err
	}
	s, err = it.Last()
	for ; s != nil && err == nil; s, err = it.Prev() {
		bwd = append(bwd, mkSpan(s))
	}
	return fwd, bwd, err
}

func mkPoint(kv *base.InternalKV) point {
	return point{Key: string(kv.K.UserKey), Kind: byte(kv.Kind()), Seq: uint64(kv.SeqNum()), Val: string(kv.InPlaceValue())}
}

// collect iterates everything a flushable exposes.
func collect(v *pebble.VerifC31Flushable) (d dump, err error) {
	it := v.NewIter()
	for kv := it.First(); kv != nil; kv = it.Next() {
		d.Fwd = append(d.Fwd, mkPoint(kv))
	}
	if err := it.Error(); err != nil {
		return d, err
	}
	for kv := it.Last(); kv != nil; kv = it.Prev() {
		d.Bwd = append(d.Bwd, mkPoint(kv))
	}
	if err := it.Close(); err != nil {
		return d, err
	}
	fit := v.NewFlushIter()
	for kv := fit.First(); kv != nil; kv = fit.Next() {
		d.Flush = append(d.Flush, mkPoint(kv))
	}
	if err := fit.Close(); err != nil {
		return d, err
	}
	if d.Dels, d.DelsB, err = collectSpans(v.NewRangeDelIter()); err != nil {
		return d, err
	}
	if d.RKeys, d.RKeyB, err = collectSpans(v.NewRangeKeyIter()); err != nil {
		return d, err
	}
	return d, nil
}

// ---------------------------------------------------------------------------------------------
// parts a and c: one op sequence

const baseSeq = 100

func (e *env) runSeq(c *vlib.Ctx, ops []Op, verbose bool) (fails []failure) {
	add := func(class, entry, f string, a ...any) {
		fails = append(fails, failure{class, entry, fmt.Sprintf(f, a...)})
	}
	p, stack := guard(func() {
		want := records(ops)
		wantCount := countOf(want)
		wantRepr := encode(0, wantCount, want)
		trans := 0

		// --- part a: encode / decode
		b := new(pebble.Batch)
		if err := applyOps(b, ops); err != nil {
			add("op-error", "build", "%v", err)
			return
		}
		trans += len(ops)
		repr := b.Repr()
		c.State(vlib.Hash(repr))
		if verbose {
			fmt.Printf("ops: %s\nrepr:      %x\nreference: %x\n", opsString(ops), repr, wantRepr)
		}
		if !bytes.Equal(repr, wantRepr) {
			add("repr-vs-reference", "Repr", "Repr()=%x, reference encoding %x", repr, wantRepr)
		}
		if b.Count() != wantCount {
			add("count-mismatch", "Count", "Count()=%d want %d", b.Count(), wantCount)
		}
		if h, ok := batchrepr.ReadHeader(repr); !ok || h.Count != wantCount || h.SeqNum != 0 {
			add("header-mismatch", "ReadHeader", "ReadHeader=%v ok=%v want count %d seqnum 0", h, ok, wantCount)
		}
		if got, err := readAll(batchrepr.Read(repr)); err != nil || !entsEqual(got, want) {
			add("reader-mismatch", "batchrepr.Read", "batchrepr.Read yields %s err=%v, want %s", entsString(got), err, entsString(want))
		}
		if got, err := readAll(b.Reader()); err != nil || !entsEqual(got, want) {
			add("reader-mismatch", "Batch.Reader", "Batch.Reader yields %s err=%v, want %s", entsString(got), err, entsString(want))
		}
		trans += 4
		mts := pebble.VerifC31MemTableSize(b)

		// SetRepr on a plain batch and on a DB batch (the latter recomputes memTableSize).
		check := func(what string, x *pebble.Batch, wantMTS bool) {
			if r := x.Repr(); !bytes.Equal(r, wantRepr) {
				add("reproduce-mismatch", what, "%s: Repr()=%x want %x", what, r, wantRepr)
			}
			if x.Count() != wantCount {
				add("reproduce-mismatch", what, "%s: Count()=%d want %d", what, x.Count(), wantCount)
			}
			if got, err := readAll(x.Reader()); err != nil || !entsEqual(got, want) {
				add("reproduce-mismatch", what, "%s: Reader yields %s err=%v want %s", what, entsString(got), err, entsString(want))
			}
			if wantMTS {
				if g := pebble.VerifC31MemTableSize(x); g != mts {
					add("memtablesize-mismatch", what, "%s: memTableSize=%d, batch built by operations has %d", what, g, mts)
				}
			}
			trans += 3
		}
		b2 := new(pebble.Batch)
		if err := b2.SetRepr(clone(repr)); err != nil {
			add("setrepr-rejects-valid", "SetRepr", "SetRepr(valid repr): %v", err)
		} else {
			check("SetRepr", b2, false)
		}
		b3 := e.db.NewBatch()
		if err := b3.SetRepr(clone(repr)); err != nil {
			add("setrepr-rejects-valid", "SetRepr(db)", "DB batch SetRepr(valid repr): %v", err)
		} else {
			check("SetRepr(db)", b3, true)
		}
		// Apply at every split point, three kinds of receiver.
		for rk, mk := range []func() *pebble.Batch{
			func() *pebble.Batch { return new(pebble.Batch) },
			func() *pebble.Batch { return e.db.NewBatch() },
			func() *pebble.Batch { return e.db.NewIndexedBatch() },
		} {
			name := []string{"Apply(plain)", "Apply(db)", "Apply(indexed)"}[rk]
			for k := 0; k <= len(ops); k++ {
				recv, arg := mk(), new(pebble.Batch)
				if err := applyOps(recv, ops[:k]); err != nil {
					add("op-error", "build", "%v", err)
					continue
				}
				if err := applyOps(arg, ops[k:]); err != nil {
					add("op-error", "build", "%v", err)
					continue
				}
				if err := recv.Apply(arg, nil); err != nil {
					add("apply-rejects-valid", name, "%s split %d: %v", name, k, err)
					continue
				}
				trans += len(ops) + 1
				check(fmt.Sprintf("%s split %d", name, k), recv, rk != 0)
				if rk != 0 {
					recv.Close()
				}
			}
		}

		// --- part c: flushable batch vs memtable vs model
		model := modelDump(ops, baseSeq)
		var dumps [3]dump
		names := [3]string{"flushableBatch(seqnum in header)", "flushableBatch(setSeqNum)", "memtable"}
		okc := true
		// (0) WAL replay style: the header carries the seqnum.
		{
			r := clone(repr)
			binary.LittleEndian.PutUint64(r[:8], baseSeq)
			fb := new(pebble.Batch)
			if err := fb.SetRepr(r); err != nil {
				add("setrepr-rejects-valid", "SetRepr", "%v", err)
				okc = false
			} else if f, err := pebble.VerifC31NewFlushableBatch(fb, e.cmp); err != nil {
				add("flushable-rejects-valid", "newFlushableBatch", "newFlushableBatch: %v", err)
				okc = false
			} else if dumps[0], err = collect(f); err != nil {
				add("iter-error", names[0], "%v", err)
				okc = false
			}
		}
		// (1) commit style: built by operations with seqnum 0, seqnum assigned afterwards.
		{
			fb := new(pebble.Batch)
			_ = applyOps(fb, ops)
			if f, err := pebble.VerifC31NewFlushableBatch(fb, e.cmp); err != nil {
				add("flushable-rejects-valid", "newFlushableBatch", "newFlushableBatch: %v", err)
				okc = false
			} else {
				f.SetSeqNum(baseSeq)
				if dumps[1], err = collect(f); err != nil {
					add("iter-error", names[1], "%v", err)
					okc = false
				}
			}
		}
		// (2) memtable
		{
			mb := new(pebble.Batch)
			_ = applyOps(mb, ops)
			mt := pebble.VerifC31NewMemTable(e.mtOpts, 32<<10, 0)
			if err := mt.Prepare(mb); err != nil {
				add("memtable-rejects-valid", "memTable.prepare", "%v", err)
				okc = false
			} else if err := mt.Apply(mb, baseSeq); err != nil {
				add("memtable-rejects-valid", "memTable.apply", "%v", err)
				okc = false
			} else {
				var err error
				if dumps[2], err = collect(mt); err != nil {
					add("iter-error", names[2], "%v", err)
					okc = false
				}
			}
			mt.Free()
		}
		trans += 3 * (len(model.Fwd)*3 + len(model.Dels)*2 + len(model.RKeys)*2 + 6)
		if verbose {
			fmt.Printf("model:    %s\n", model)
			for i := range dumps {
				fmt.Printf("%-34s %s\n", names[i]+":", dumps[i])
			}
		}
		if okc {
			for i := 0; i < 2; i++ {
				if w := dumpDiff(dumps[i], dumps[2]); w != "" {
					add("flushable-vs-memtable", names[i], "%s differs from the memtable in %s:\n  flushable: %s\n  memtable:  %s", names[i], w, dumps[i], dumps[2])
				}
			}
			for i := 0; i < 3; i++ {
				if w := dumpDiff(dumps[i], model); w != "" {
					add("iteration-vs-model", names[i], "%s differs from the model in %s:\n  got:   %s\n  model: %s", names[i], w, dumps[i], model)
				}
			}
		}
		c.Trans(trans)
	})
	if p != nil {
		add("panic-valid-sequence", "seq", "panic on a valid operation sequence: %v\n%s", p, stack)
	}
	return fails
}

// ---------------------------------------------------------------------------------------------
// part b: one byte string through every decoding entry point

const (
	eReader = iota
	eSetRepr
	eSetReprDB
	eApplyPlain
	eApplyDB
	eApplyIdx
	eApplyDBNonEmpty
	eApplyIdxNonEmpty
	eReplayFlushable
	eReplayMem
	eReplayIngest
	eOpen
	eOpenLarge
	nEntries
)

var entryNames = [nEntries]string{"reader", "setrepr", "setrepr-db", "apply-plain", "apply-db", "apply-indexed",
	"apply-db-nonempty", "apply-indexed-nonempty", "replay-flushable", "replay-memtable", "replay-ingest",
	"open", "open-largebatch"}

const (
	oNotRun = iota
	oOK
	oErr
	oPanic
	oSkip
	nOutcomes
)

var outcomeNames = [nOutcomes]string{"not-run", "ok", "error", "panic", "skipped-huge-count"}

// agg accumulates the results of a group of inputs without locking.
type agg struct {
	counts     [nEntries][nOutcomes]int64
	sigs       map[uint64]struct{}
	nontrivial []uint64
	inputs     int64
	trans      int64
}

func newAgg() *agg { return &agg{sigs: map[uint64]struct{}{}} }

var aggMu sync.Mutex
var total = newAgg()

func (a *agg) flush(c *vlib.Ctx) {
	aggMu.Lock()
	for i := range a.counts {
		for j := range a.counts[i] {
			total.counts[i][j] += a.counts[i][j]
		}
	}
	total.inputs += a.inputs
	aggMu.Unlock()
	for s := range a.sigs {
		c.State(s)
	}
	for _, h := range a.nontrivial {
		c.Nontrivial(h)
	}
	c.Eval(int(a.inputs))
	c.Trans(int(a.trans))
}

// hugeCount: newFlushableBatch and replayIngestedFlushable pre-allocate Count() entries, so a header
// count of 2^32-1 asks for 64 GiB / 32 GiB: a fatal out-of-memory error, not a panic. Such inputs are
// not fed to those two functions (reported as an observation, see the "excluded" note).
const hugeCount = 4096

var replayAssertions = []string{
	"cannot apply ingested sstable or excise kind keys to memtable",
	"pebble: invalid batch key kind",
	"pebble: invalid batch count",
	"pebble: ingest sstable file num is invalid",
	"pebble: corrupt blob file IDs",
	"pebble: multiple excise spans",
	"pebble: invalid number of entries in batch",
	"pebble: couldn't load all files in WAL entry",
}

// panicClass gives the known panic families their stable classes; every other panic is
// "panic-<entrypoint>".
//
//	apply-panic-foreign-kind     Batch.Apply asserts on IngestSST / IngestSSTWithBlobs / Excise records
//	replay-panic-foreign-kind    the WAL replay path (replayIngestedFlushable, memTable.apply) asserts on
//	                             batches that contain those kinds but are not a well-formed flushable ingest
//	replay-panic-rangekey-value  newFlushableBatch -> rangekey.Decode slices a range key value out of bounds
func panicClass(entry int, p any, stack string, hasForeign bool) string {
	msg := fmt.Sprint(p)
	switch entry {
	case eApplyDB, eApplyIdx, eApplyDBNonEmpty, eApplyIdxNonEmpty, eApplyPlain:
		if hasForeign && strings.Contains(msg, "pebble: invalid key kind for batch") {
			return "apply-panic-foreign-kind"
		}
	case eReplayMem, eReplayIngest, eReplayFlushable, eOpen, eOpenLarge:
		if hasForeign {
			for _, a := range replayAssertions {
				if strings.Contains(msg, a) {
					return "replay-panic-foreign-kind"
				}
			}
		}
		if strings.Contains(msg, "runtime error: slice bounds out of range") && strings.Contains(stack, "internal/rangekey.decode") {
			return "replay-panic-rangekey-value"
		}
	}
	return "panic-" + entryNames[entry]
}

// Depth of the treatment of one input.
const (
	deepNone      = iota // the in-memory entry points only
	deepAll              // plus non-empty Apply receivers and two real DB opens whose WAL holds the input
	deepDecodable        // like deepAll, but the DB opens only if replay-style SetRepr accepts the input
	// (DB.replayWAL returns the SetRepr error at once; the unfiltered plans cover that branch)
)

// runBytes feeds x to every entry point.
func (e *env) runBytes(a *agg, x []byte, deep int, verbose bool) (fails []failure) {
	var out [nEntries]uint8
	add := func(class string, entry int, f string, args ...any) {
		fails = append(fails, failure{class, entryNames[entry], fmt.Sprintf(f, args...)})
	}
	es, status, why := refDecode(x)
	var hdrCount uint32
	var hdrSeq uint64
	if len(x) >= headerLen {
		hdrSeq = binary.LittleEndian.Uint64(x[:8])
		hdrCount = binary.LittleEndian.Uint32(x[8:12])
	}
	nonLog := countOf(es)
	allApplicable, hasForeign, hasRangeKey, nPoints := true, false, false, 0
	for _, r := range es {
		if !applicable(r.kind) {
			allApplicable = false
		}
		if foreign(r.kind) {
			hasForeign = true
		}
		switch r.kind {
		case kRangeKeyDel, kRangeKeySet, kRangeKeyUnset:
			hasRangeKey = true
		case kRangeDelete, kLogData:
		default:
			nPoints++
		}
	}
	firstForeign := len(es) > 0 && foreign(es[0].kind)
	if verbose {
		fmt.Printf("input (%d bytes): %x\nreference decoder: status=%s %s records=%s header count=%d seqnum=%d\n",
			len(x), x, [...]string{"valid", "invalid", "ambiguous"}[status], why, entsString(es), hdrCount, hdrSeq)
	}
	// run executes one entry point under recover.
	run := func(entry int, f func() error) (err error, panicked bool) {
		var ferr error
		p, stack := guard(func() { ferr = f() })
		a.trans++
		switch {
		case p != nil:
			out[entry] = oPanic
			add(panicClass(entry, p, stack, hasForeign), entry, "%s panics: %v\n%s", entryNames[entry], p, trimStack(stack))
		case ferr != nil:
			out[entry] = oErr
		default:
			out[entry] = oOK
		}
		if verbose {
			fmt.Printf("  %-24s %s err=%v panic=%v\n", entryNames[entry], outcomeNames[out[entry]], ferr, p)
		}
		return ferr, p != nil
	}

	// 1. batchrepr.ReadHeader + Reader
	var gotEs []ent
	var gotErr error
	run(eReader, func() error {
		h, ok := batchrepr.ReadHeader(x)
		if ok != (len(x) >= headerLen) || (ok && (h.Count != hdrCount || uint64(h.SeqNum) != hdrSeq)) {
			add("reader-vs-reference", eReader, "ReadHeader=%v ok=%v on %d bytes", h, ok, len(x))
		}
		gotEs, gotErr = readAll(batchrepr.Read(x))
		return gotErr
	})
	if out[eReader] != oPanic && len(x) >= headerLen && status != refAmbiguous {
		if (gotErr != nil) != (status == refInvalid) || !entsEqual(gotEs, es) {
			add("reader-vs-reference", eReader, "Reader yields %s err=%v; reference decoder: %s %s (%s)",
				entsString(gotEs), gotErr, entsString(es), [...]string{"valid", "invalid"}[status], why)
		}
	}

	// 2. SetRepr on a plain batch, then iterate its Reader.
	var src *pebble.Batch
	run(eSetRepr, func() error {
		b := new(pebble.Batch)
		err := b.SetRepr(clone(x))
		if (err != nil) != (len(x) < headerLen) {
			add("setrepr-vs-reference", eSetRepr, "plain SetRepr of %d bytes: err=%v", len(x), err)
		}
		if err != nil {
			return err
		}
		src = b
		if b.Count() != hdrCount {
			add("setrepr-vs-reference", eSetRepr, "Count()=%d header says %d", b.Count(), hdrCount)
		}
		g, gerr := readAll(b.Reader())
		if (gerr != nil) != (gotErr != nil) || !entsEqual(g, gotEs) {
			add("setrepr-vs-reference", eSetRepr, "Batch.Reader after SetRepr yields %s err=%v, batchrepr.Read gave %s err=%v", entsString(g), gerr, entsString(gotEs), gotErr)
		}
		return nil
	})

	// 3. SetRepr the way WAL replay does it (db set: refreshMemTableSize validates the kinds).
	knownKinds := true
	for _, r := range es {
		if !applicable(r.kind) && !foreign(r.kind) {
			knownKinds = false
		}
	}
	var rb *pebble.Batch
	run(eSetReprDB, func() error {
		b := pebble.VerifC31NewReplayBatch(e.db)
		err := b.SetRepr(clone(x))
		if status != refAmbiguous {
			wantErr := len(x) < headerLen || status == refInvalid || !knownKinds
			if (err != nil) != wantErr {
				add("setrepr-vs-reference", eSetReprDB, "replay-style SetRepr: err=%v but the reference decoder says %s (%s), known kinds=%v",
					err, [...]string{"valid", "invalid"}[status], why, knownKinds)
			}
		}
		if err == nil {
			rb = b
		}
		return err
	})

	// 4. Apply(batch with that repr) into fresh receivers.
	if src != nil {
		applyInto := func(entry int, mk func() *pebble.Batch, pre bool, validating bool) {
			var recv *pebble.Batch
			_, panicked := run(entry, func() error {
				recv = mk()
				var want []ent
				if pre {
					if err := recv.Set([]byte("a"), []byte("1"), nil); err != nil {
						return err
					}
					want = append(want, ent{kSet, []byte("a"), []byte("1")})
				}
				err := recv.Apply(src, nil)
				if validating && status != refAmbiguous {
					wantErr := status == refInvalid || !allApplicable
					if (err != nil) != wantErr {
						add("apply-vs-reference", entry, "Apply: err=%v but the reference decoder says %s (%s), all kinds applicable=%v",
							err, [...]string{"valid", "invalid"}[status], why, allApplicable)
					}
				}
				if err != nil {
					return err
				}
				if status == refValid {
					want = append(want, es...)
					g, gerr := readAll(recv.Reader())
					wc := hdrCount
					if pre {
						wc++
					}
					if gerr != nil || !entsEqual(g, want) || recv.Count() != wc {
						add("apply-vs-reference", entry, "receiver after Apply yields %s err=%v count=%d, want %s count=%d", entsString(g), gerr, recv.Count(), entsString(want), wc)
					}
				}
				return nil
			})
			if !panicked && recv != nil && entry != eApplyPlain {
				recv.Close()
			}
		}
		applyInto(eApplyPlain, func() *pebble.Batch { return new(pebble.Batch) }, false, false)
		applyInto(eApplyDB, func() *pebble.Batch { return e.db.NewBatch() }, false, true)
		applyInto(eApplyIdx, func() *pebble.Batch { return e.db.NewIndexedBatch() }, false, true)
		if deep != deepNone {
			applyInto(eApplyDBNonEmpty, func() *pebble.Batch { return e.db.NewBatch() }, true, true)
			applyInto(eApplyIdxNonEmpty, func() *pebble.Batch { return e.db.NewIndexedBatch() }, true, true)
		}
	}

	// 5. The steps of DB.replayWAL after the record has been read: SetRepr with db set (done above),
	// look at the first kind, then replayIngestedFlushable | newFlushableBatch | memTable.prepare+apply.
	// The WAL reader (wal/reader.go) drops records whose header count is zero (LogData-only batches)
	// and records whose seqnum does not exceed the previous one (initially 0) before DB.replayWAL
	// sees them, so those inputs never reach the steps below.
	walSkips := hdrCount == 0 || hdrSeq == 0
	if rb != nil && !walSkips {
		if firstForeign {
			if hdrCount > hugeCount {
				out[eReplayIngest] = oSkip
			} else {
				run(eReplayIngest, func() error { return pebble.VerifC31ReplayIngestedFlushable(e.db, rb) })
			}
		} else {
			if hdrCount > hugeCount {
				out[eReplayFlushable] = oSkip
			} else {
				run(eReplayFlushable, func() error {
					fb := pebble.VerifC31NewReplayBatch(e.db)
					if err := fb.SetRepr(clone(x)); err != nil {
						return err
					}
					f, err := pebble.VerifC31NewFlushableBatch(fb, e.cmp)
					if status != refAmbiguous {
						mustErr := !allApplicable || nonLog > hdrCount
						if mustErr && err == nil {
							add("flushable-accepts-malformed", eReplayFlushable, "newFlushableBatch accepts a batch with %d records, header count %d, all kinds applicable=%v", nonLog, hdrCount, allApplicable)
						}
						if !mustErr && !hasRangeKey && err != nil {
							add("flushable-rejects-valid", eReplayFlushable, "newFlushableBatch: %v", err)
						}
					}
					if err != nil {
						return err
					}
					n := 0
					it := f.NewIter()
					for kv := it.First(); kv != nil; kv = it.Next() {
						n++
					}
					for kv := it.Last(); kv != nil; kv = it.Prev() {
						n++
					}
					if status == refValid && n != 2*nPoints {
						add("flushable-vs-reference", eReplayFlushable, "flushable batch iterates %d points forward+backward, reference has %d point records", n, nPoints)
					}
					return it.Close()
				})
			}
			run(eReplayMem, func() error {
				mt := pebble.VerifC31NewMemTable(e.mtOpts, 8192+400*len(x), 0)
				defer mt.Free()
				if err := mt.Prepare(rb); err != nil {
					if err == arenaskl.ErrArenaFull {
						add("harness-arena-too-small", eReplayMem, "memtable arena of %d bytes too small for memTableSize %d", 8192+400*len(x), pebble.VerifC31MemTableSize(rb))
					}
					return err
				}
				err := mt.Apply(rb, rb.SeqNum())
				if status == refValid && allApplicable {
					if (err == nil) != (nonLog == hdrCount) {
						class := "memtable-rejects-valid"
						if err == nil {
							class = "memtable-accepts-count-mismatch"
						}
						add(class, eReplayMem, "memTable.apply: err=%v; the batch has %d counted records and header count %d", err, nonLog, hdrCount)
					}
				}
				return err
			})
		}
	}

	// 6. The real thing: a DB whose WAL holds this record is opened.
	if deep == deepAll || (deep == deepDecodable && rb != nil) {
		for _, large := range []bool{false, true} {
			entry := eOpen
			if large {
				entry = eOpenLarge
			}
			if hdrCount > hugeCount && (large || firstForeign) && len(x) > headerLen {
				out[entry] = oSkip
				continue
			}
			err, panicked := run(entry, func() error { return e.openWithWAL(x, large) })
			if panicked {
				continue
			}
			if err != nil && strings.HasPrefix(err.Error(), "harness:") {
				add("harness-wal-write", entry, "%v", err)
				continue
			}
			if status == refAmbiguous || (walSkips && len(x) >= headerLen) {
				continue
			}
			mustErr := len(x) < headerLen || status == refInvalid || !knownKinds
			if !firstForeign && status == refValid && knownKinds {
				if hasForeign {
					continue // panics today (known class) / should be an error
				}
				if !large && nonLog != hdrCount {
					mustErr = true
				}
				if large && nonLog > hdrCount {
					mustErr = true
				}
			}
			if mustErr && err == nil {
				add("open-accepts-malformed", entry, "Open succeeds although the WAL record is malformed: reference decoder %s (%s), %d counted records, header count %d, known kinds=%v",
					[...]string{"valid", "invalid"}[status], why, nonLog, hdrCount, knownKinds)
			}
			if !mustErr && !firstForeign && !large && hdrSeq >= baseSeq && hdrSeq < 1<<55 && err != nil {
				add("open-rejects-valid", entry, "Open fails on a well-formed WAL record: %v", err)
			}
		}
	}

	// bookkeeping
	a.inputs++
	var sig uint64
	for i, o := range out {
		a.counts[i][o]++
		sig = sig*8 + uint64(o)
	}
	a.sigs[sig*4+uint64(status)] = struct{}{}
	if len(es) >= 1 {
		a.nontrivial = append(a.nontrivial, vlib.Hash(x))
	}
	return fails
}

func trimStack(s string) string {
	lines := strings.Split(s, "\n")
	var keep []string
	for _, l := range lines {
		if strings.Contains(l, "/repo/") || strings.Contains(l, "pebble") && !strings.Contains(l, "verif") {
			keep = append(keep, strings.TrimSpace(l))
		}
		if len(keep) >= 8 {
			break
		}
	}
	return strings.Join(keep, "\n")
}

// ---------------------------------------------------------------------------------------------
// the enumerated inputs of part b

var countMenu = []uint32{0, 1, 2, 3, 256, 0xffffffff}

func header(count uint32) []byte {
	h := make([]byte, headerLen, headerLen+4)
	binary.LittleEndian.PutUint64(h[:8], baseSeq)
	binary.LittleEndian.PutUint32(h[8:], count)
	return h
}

type validRepr struct {
	name string
	repr []byte
	lens [][2]int // (offset, width) of every top-level length varint (key length, value length)
}

// lengthFields returns the positions of the key/value length varints of encode(seq, count, es).
func lengthFields(es []ent) [][2]int {
	var out [][2]int
	off := headerLen
	for _, e := range es {
		off++ // kind
		w := len(binary.AppendUvarint(nil, uint64(len(e.key))))
		out = append(out, [2]int{off, w})
		off += w + len(e.key)
		if hasValue(e.kind) {
			w := len(binary.AppendUvarint(nil, uint64(len(e.val))))
			out = append(out, [2]int{off, w})
			off += w + len(e.val)
		}
	}
	return out
}

// lengthMenu: boundary values for a length field whose string has n bytes, followed by rest bytes to
// the end of the representation. Each is a varint ENCODING (so that non-canonical and overlong
// encodings are in the menu too).
func lengthMenu(n, rest int) [][]byte {
	u := func(v uint64) []byte { return binary.AppendUvarint(nil, v) }
	vals := []uint64{0, 1, 127, 128, uint64(n), uint64(rest), uint64(rest) + 1, 16383, 16384,
		1<<31 - 1, 1 << 31, 1<<32 - 6, 1<<32 - 5, 1<<32 - 4, 1<<32 - 3, 1<<32 - 2, 1<<32 - 1, 1 << 32, 1<<32 + 1, 1<<63 - 1, 1<<64 - 1}
	if n > 0 {
		vals = append(vals, uint64(n)-1)
	}
	vals = append(vals, uint64(n)+1)
	var out [][]byte
	for _, v := range vals {
		out = append(out, u(v))
	}
	// non-canonical and overlong encodings of small values, and an unterminated varint
	out = append(out, []byte{0x80, 0x00}, []byte{0x81, 0x80, 0x00}, []byte{0xff, 0xff, 0xff, 0xff, 0xff, 0xff, 0xff, 0xff, 0xff, 0x7f},
		[]byte{0x80, 0x80, 0x80, 0x80, 0x80, 0x80, 0x80, 0x80, 0x80, 0x80, 0x01}, []byte{0xff})
	return out
}

func rep(n int, ch byte) string { return strings.Repeat(string(rune(ch)), n) }

func validReprs() []validRepr {
	mk := func(name string, ops []Op) validRepr {
		es := records(ops)
		return validRepr{name, encode(baseSeq, countOf(es), es), lengthFields(es)}
	}
	out := []validRepr{
		mk("four-ops", []Op{{K: "set", Key: "a", Val: "1"}, {K: "del", Key: "b"}, {K: "merge", Key: "a", Val: "2"}, {K: "sdel", Key: "b"}}),
		mk("one-rangekeyset", []Op{{K: "rkset", Key: "a", End: "c", Suf: "@1", Val: "r"}}),
		mk("all-kinds", []Op{{K: "set", Key: "a", Val: "v"}, {K: "del", Key: "b"}, {K: "delsized", Key: "a", N: 3}, {K: "sdel", Key: "b"},
			{K: "merge", Key: "b", Val: "w"}, {K: "delrange", Key: "a", End: "c"}, {K: "logdata", Key: "x"},
			{K: "rkset", Key: "a", End: "c", Suf: "@1", Val: "z"}, {K: "rkunset", Key: "a", End: "c", Suf: "@1"}, {K: "rkdel", Key: "b", End: "c"}}),
		// Values above 127 bytes: two-byte length varints and the len(data) > 128 branch of DecodeStr.
		mk("long-values", []Op{{K: "set", Key: "a", Val: rep(140, 'p')}, {K: "logdata", Key: "ld"}, {K: "rkset", Key: "a", End: "c", Suf: "", Val: "q"},
			{K: "del", Key: "a"}, {K: "delrange", Key: "a", End: "b"}, {K: "merge", Key: "b", Val: rep(135, 'm')}}),
	}
	// What DB.Ingest writes to the WAL for a flushable ingest with an excise (hand-encoded: the
	// methods that produce it are unexported): IngestSST(table 7), IngestSSTWithBlobs(table 8,
	// blob file 9), Excise [a,c).
	ing := []ent{{kIngestSST, []byte{7}, nil}, {kIngestBlobs, []byte{8}, []byte{1, 9}}, {kExcise, []byte("a"), []byte("c")}}
	out = append(out, validRepr{"flushable-ingest", encode(baseSeq, 3, ing), lengthFields(ing)})
	return out
}

type plan struct {
	name  string
	n     int                                                 // number of work items
	items func(i int, f func(x []byte, origin func() string)) // inputs of work item i
	deep  int
	size  int64 // number of inputs
}

func bytePlans(thorough bool) []plan {
	var plans []plan
	// strings shorter than a header
	plans = append(plans, plan{name: "shorter-than-header", n: headerLen, deep: deepAll, size: headerLen,
		items: func(i int, f func([]byte, func() string)) {
			f(header(1)[:i], func() string { return fmt.Sprintf("header prefix of %d bytes", i) })
		}})
	maxTail := 2
	if thorough {
		maxTail = 3
	}
	// header+3 restricts the first tail byte (the kind) to 0..31 and four representatives of the
	// kinds above InternalKeyKindMax, all of which are rejected by one comparison before anything else
	// is read (every such kind byte is enumerated at header+2).
	var kinds3 []byte
	for k := 0; k < 32; k++ {
		kinds3 = append(kinds3, byte(k))
	}
	kinds3 = append(kinds3, 0x40, 0x7f, 0x80, 0xff)
	for t := 0; t <= maxTail; t++ {
		t := t
		per := 1
		switch t {
		case 1:
			per = 256
		case 2:
			per = 65536
		case 3:
			per = len(kinds3) * 256
		}
		inner := 1
		mode := deepAll
		if t >= 2 {
			mode = deepDecodable
		}
		if t == 3 {
			inner = 256
		}
		plans = append(plans, plan{
			name: fmt.Sprintf("header+%d", t), n: len(countMenu) * per, deep: mode,
			size: int64(len(countMenu)) * int64(per) * int64(inner),
			items: func(i int, f func([]byte, func() string)) {
				m, r := i/per, i%per
				x := header(countMenu[m])
				origin := func() string { return fmt.Sprintf("header(seqnum=%d,count=%d)+%d bytes", baseSeq, countMenu[m], t) }
				switch t {
				case 0:
					f(x, origin)
				case 1:
					f(append(x, byte(r)), origin)
				case 2:
					f(append(x, byte(r>>8), byte(r)), origin)
				case 3:
					x = append(x, kinds3[r>>8], byte(r), 0)
					for b := 0; b < 256; b++ {
						x[headerLen+2] = byte(b)
						f(x, origin)
					}
				}
			}})
	}
	for _, v := range validReprs() {
		v := v
		plans = append(plans, plan{name: "truncations of " + v.name, n: len(v.repr) + 1, deep: deepAll, size: int64(len(v.repr) + 1),
			items: func(i int, f func([]byte, func() string)) {
				f(v.repr[:i], func() string { return fmt.Sprintf("%s (%d bytes) truncated to %d", v.name, len(v.repr), i) })
			}})
	}
	for _, v := range validReprs() {
		v := v
		// work item = byte offset; 256 values each (the original value gives the valid repr itself)
		mode := deepAll
		if !thorough && len(v.repr) >= 150 {
			mode = deepNone
		}
		plans = append(plans, plan{name: "substitutions in " + v.name, n: len(v.repr), deep: mode, size: int64(len(v.repr)) * 256,
			items: func(i int, f func([]byte, func() string)) {
				x := clone(v.repr)
				for b := 0; b < 256; b++ {
					x[i] = byte(b)
					b := b
					f(x, func() string {
						return fmt.Sprintf("%s (%d bytes) with byte %d = 0x%02x (was 0x%02x)", v.name, len(v.repr), i, b, v.repr[i])
					})
				}
			}})
	}
	// every top-level length varint of every valid representation replaced by every boundary value
	// of lengthMenu (the bytes after the field are kept, so that a huge length is followed by real
	// data: the bounds check must reject it, whatever its arithmetic does)
	for _, v := range validReprs() {
		v := v
		plans = append(plans, plan{name: "length fields of " + v.name, n: len(v.lens), deep: deepAll, size: int64(len(v.lens)) * 28,
			items: func(i int, f func([]byte, func() string)) {
				off, w := v.lens[i][0], v.lens[i][1]
				old, _ := binary.Uvarint(v.repr[off : off+w])
				for _, enc := range lengthMenu(int(old), len(v.repr)-off-w) {
					enc := enc
					x := append(append(clone(v.repr[:off]), enc...), v.repr[off+w:]...)
					f(x, func() string {
						return fmt.Sprintf("%s (%d bytes) with the length varint at offset %d (was %d) replaced by % x", v.name, len(v.repr), off, old, enc)
					})
				}
			}})
	}
	return plans
}

// ---------------------------------------------------------------------------------------------

func TestCheck(t *testing.T) {
	vlib.Main(t, "C31", func(c *vlib.Ctx) {
		e, err := newEnv()
		if err != nil {
			t.Fatal(err)
		}
		if c.ReplayPath() != "" {
			var cs Case
			if err := c.LoadReplay(&cs); err != nil {
				t.Fatal(err)
			}
			var fails []failure
			if cs.Part == "seq" {
				fails = e.runSeq(c, cs.Ops, true)
			} else {
				x, err := hex.DecodeString(cs.Hex)
				if err != nil {
					t.Fatal(err)
				}
				a := newAgg()
				fails = e.runBytes(a, x, deepAll, true)
				a.flush(c)
			}
			for _, f := range fails {
				fmt.Printf("replay: FAIL class=%s entry=%s: %s\n", f.class, f.entry, f.desc)
				c.Violation(f.class, f.desc, cs)
			}
			if len(fails) == 0 {
				fmt.Println("replay: no failure")
			}
			c.Eval(1)
			return
		}

		var notes []string
		stopped := false

		// ---- parts a and c
		depth := 3
		if c.Thorough() {
			depth = 4
		}
		k := len(alphabet)
		n := vlib.SeqCount(k, 1, depth)
		t0 := time.Now()
		done, complete := c.Each(n, func(i int) {
			ops := seqOps(vlib.SeqDecode(i, k, 1, depth))
			fails := e.runSeq(c, ops, false)
			c.Eval(1)
			if nontrivialSeq(ops) {
				c.Nontrivial(vlib.Hash("seq", opsString(ops)))
			}
			if len(fails) == 0 {
				c.Outcome("seq:agree")
			}
			for _, f := range fails {
				c.Outcome("seq:" + f.class)
				c.Violation(f.class, fmt.Sprintf("ops=[%s]: %s", opsString(ops), f.desc), Case{Part: "seq", Ops: ops, Entry: f.entry})
			}
			if i%40009 == 17 {
				c.Sample(Case{Part: "seq", Ops: ops})
			}
		})
		notes = append(notes, fmt.Sprintf("parts a+c: %d/%d op sequences of depth 1..%d over %d symbols [%.1fs]", done, n, depth, k, time.Since(t0).Seconds()))
		if !complete {
			c.Incomplete(fmt.Sprintf("budget expired in parts a+c after %d of %d op sequences", done, n))
			stopped = true
		}

		// ---- part b
		if !stopped {
			for _, p := range bytePlans(c.Thorough()) {
				p := p
				var inputs int64
				var mu sync.Mutex
				t0 := time.Now()
				done, complete := c.Each(p.n, func(i int) {
					a := newAgg()
					p.items(i, func(x []byte, originf func() string) {
						fails := e.runBytes(a, x, p.deep, false)
						for _, f := range fails {
							origin := originf()
							c.Violation(f.class, fmt.Sprintf("input %x (%s): %s", x, origin, f.desc),
								Case{Part: "bytes", Hex: hex.EncodeToString(x), Origin: origin, Entry: f.entry})
						}
						if len(fails) == 0 && len(x) > headerLen && (i*7919+len(x))%4001 == 0 {
							c.Sample(Case{Part: "bytes", Hex: hex.EncodeToString(x), Origin: originf()})
						}
					})
					mu.Lock()
					inputs += a.inputs
					mu.Unlock()
					a.flush(c)
				})
				deep := [...]string{"", " (incl. DB open)", " (incl. DB open when replay-style SetRepr accepts)"}[p.deep]
				notes = append(notes, fmt.Sprintf("part b %s: %d/%d work items, %d inputs%s [%.1fs]", p.name, done, p.n, inputs, deep, time.Since(t0).Seconds()))
				if !complete {
					c.Incomplete(fmt.Sprintf("budget expired in part b plan %q after %d of %d work items; all earlier plans complete", p.name, done, p.n))
					break
				}
			}
		}
		for i := range total.counts {
			for j, n := range total.counts[i] {
				if n > 0 && j != oNotRun {
					c.OutcomeN(entryNames[i]+":"+outcomeNames[j], n)
				}
			}
		}
		c.Note("scope", notes)
		c.Note("excluded", fmt.Sprintf("inputs with header count > %d are not fed to newFlushableBatch / replayIngestedFlushable / the corresponding DB opens: these pre-allocate Count() entries (a 2^32-1 count requests 64 GiB and dies with a fatal out-of-memory error rather than a panic)", hugeCount))
		e.db.Close()
	})
}
