package c31

// Reference encoder/decoder of the batch representation, written from the format description in
// the Batch doc comment (batch.go, "Internal representation"), independent of batchrepr and of the
// Batch methods. It is the oracle of parts (a) and (b).

import (
	"bytes"
	"encoding/binary"
	"fmt"
	"sort"
	"strings"
)

const headerLen = 12

// Key kinds (values from the on-disk format; internal/base/internal.go).
const (
	kDelete        = 0
	kSet           = 1
	kMerge         = 2
	kLogData       = 3
	kSingleDelete  = 7
	kRangeDelete   = 15
	kSetWithDelete = 18
	kRangeKeyDel   = 19
	kRangeKeyUnset = 20
	kRangeKeySet   = 21
	kIngestSST     = 22
	kDeleteSized   = 23
	kExcise        = 24
	kIngestBlobs   = 26
	kMax           = 30
)

var kindNames = map[byte]string{kDelete: "DEL", kSet: "SET", kMerge: "MERGE", kLogData: "LOGDATA",
	kSingleDelete: "SINGLEDEL", kRangeDelete: "RANGEDEL", kSetWithDelete: "SETWITHDEL",
	kRangeKeyDel: "RANGEKEYDEL", kRangeKeyUnset: "RANGEKEYUNSET", kRangeKeySet: "RANGEKEYSET",
	kIngestSST: "INGESTSST", kDeleteSized: "DELSIZED", kExcise: "EXCISE", kIngestBlobs: "INGESTSSTBLOBS"}

func kindName(k byte) string {
	if s, ok := kindNames[k]; ok {
		return s
	}
	return fmt.Sprintf("kind%d", k)
}

// hasValue: the kinds whose record carries a second varstring.
func hasValue(k byte) bool {
	switch k {
	case kSet, kMerge, kRangeDelete, kRangeKeySet, kRangeKeyUnset, kRangeKeyDel, kDeleteSized, kExcise, kIngestBlobs:
		return true
	}
	return false
}

// applicable: kinds a user batch / memtable may contain.
func applicable(k byte) bool {
	switch k {
	case kDelete, kSet, kMerge, kLogData, kSingleDelete, kRangeDelete, kSetWithDelete, kRangeKeyDel,
		kRangeKeyUnset, kRangeKeySet, kDeleteSized:
		return true
	}
	return false
}

func foreign(k byte) bool { return k == kIngestSST || k == kExcise || k == kIngestBlobs }

// Op is one batch operation of the alphabet (also the replay artefact of parts a/c).
type Op struct {
	K   string `json:"k"`             // set del delsized sdel merge delrange logdata rkset rkunset rkdel
	Key string `json:"key"`           // key / range start / log data
	End string `json:"end,omitempty"` // range end
	Suf string `json:"suf,omitempty"` // range key suffix
	Val string `json:"val,omitempty"` // value
	N   uint32 `json:"n,omitempty"`   // DeleteSized size argument
}

func (o Op) String() string {
	switch o.K {
	case "set", "merge":
		return fmt.Sprintf("%s(%q,%q)", o.K, o.Key, o.Val)
	case "del", "sdel", "logdata":
		return fmt.Sprintf("%s(%q)", o.K, o.Key)
	case "delsized":
		return fmt.Sprintf("delsized(%q,%d)", o.Key, o.N)
	case "delrange", "rkdel":
		return fmt.Sprintf("%s(%q,%q)", o.K, o.Key, o.End)
	case "rkset":
		return fmt.Sprintf("rkset(%q,%q,%q,%q)", o.Key, o.End, o.Suf, o.Val)
	case "rkunset":
		return fmt.Sprintf("rkunset(%q,%q,%q)", o.Key, o.End, o.Suf)
	}
	return "?" + o.K
}

func opsString(ops []Op) string {
	s := make([]string, len(ops))
	for i, o := range ops {
		s[i] = o.String()
	}
	return strings.Join(s, " ")
}

// ent is one decoded record.
type ent struct {
	kind     byte
	key, val []byte
}

func (e ent) String() string {
	if hasValue(e.kind) {
		return fmt.Sprintf("%s(%q,%q)", kindName(e.kind), e.key, e.val)
	}
	return fmt.Sprintf("%s(%q)", kindName(e.kind), e.key)
}

func entsString(es []ent) string {
	s := make([]string, len(es))
	for i, e := range es {
		s[i] = e.String()
	}
	return "[" + strings.Join(s, " ") + "]"
}

func entsEqual(a, b []ent) bool {
	if len(a) != len(b) {
		return false
	}
	for i := range a {
		if a[i].kind != b[i].kind || !bytes.Equal(a[i].key, b[i].key) || !bytes.Equal(a[i].val, b[i].val) {
			return false
		}
	}
	return true
}

func varstr(dst []byte, s []byte) []byte {
	dst = binary.AppendUvarint(dst, uint64(len(s)))
	return append(dst, s...)
}

// record returns the record an operation must encode to.
func (o Op) record() ent {
	switch o.K {
	case "set":
		return ent{kSet, []byte(o.Key), []byte(o.Val)}
	case "merge":
		return ent{kMerge, []byte(o.Key), []byte(o.Val)}
	case "del":
		return ent{kDelete, []byte(o.Key), nil}
	case "sdel":
		return ent{kSingleDelete, []byte(o.Key), nil}
	case "logdata":
		return ent{kLogData, []byte(o.Key), nil}
	case "delsized":
		// value = uvarint(size + len(key))
		return ent{kDeleteSized, []byte(o.Key), binary.AppendUvarint(nil, uint64(o.N)+uint64(len(o.Key)))}
	case "delrange":
		return ent{kRangeDelete, []byte(o.Key), []byte(o.End)}
	case "rkdel":
		return ent{kRangeKeyDel, []byte(o.Key), []byte(o.End)}
	case "rkset":
		// value = varstr(end) varstr(suffix) varstr(value)
		v := varstr(nil, []byte(o.End))
		v = varstr(v, []byte(o.Suf))
		v = varstr(v, []byte(o.Val))
		return ent{kRangeKeySet, []byte(o.Key), v}
	case "rkunset":
		v := varstr(nil, []byte(o.End))
		v = varstr(v, []byte(o.Suf))
		return ent{kRangeKeyUnset, []byte(o.Key), v}
	}
	panic("unknown op " + o.K)
}

func records(ops []Op) []ent {
	es := make([]ent, len(ops))
	for i, o := range ops {
		es[i] = o.record()
	}
	return es
}

// countOf is the header count of a record list: every record except LogData.
func countOf(es []ent) uint32 {
	var n uint32
	for _, e := range es {
		if e.kind != kLogData {
			n++
		}
	}
	return n
}

// encode builds a batch representation.
func encode(seq uint64, count uint32, es []ent) []byte {
	b := make([]byte, headerLen, 64)
	binary.LittleEndian.PutUint64(b[:8], seq)
	binary.LittleEndian.PutUint32(b[8:12], count)
	for _, e := range es {
		b = append(b, e.kind)
		b = varstr(b, e.key)
		if hasValue(e.kind) {
			b = varstr(b, e.val)
		}
	}
	return b
}

// Result of the reference decoder.
const (
	refValid     = iota // every record decodes, input consumed exactly
	refInvalid          // the record after ents is illegible (bad kind, truncated string)
	refAmbiguous        // a length varint is non-canonical or overflows 32 bits: the format text does not say
)

// refVarint32 decodes a canonical varint32. status: 0 ok, 1 invalid (truncated), 2 ambiguous.
func refVarint32(p []byte) (v uint32, n int, status int) {
	var x uint64
	for i := 0; i < 5; i++ {
		if i >= len(p) {
			return 0, 0, 1
		}
		c := p[i]
		x |= uint64(c&0x7f) << (7 * uint(i))
		if c < 0x80 {
			if i > 0 && c == 0 {
				return 0, 0, 2 // non-canonical (padded) encoding
			}
			if x > 0xffffffff {
				return 0, 0, 2
			}
			return uint32(x), i + 1, 0
		}
	}
	return 0, 0, 2 // continuation bit on the fifth byte
}

func refStr(p []byte) (s, rest []byte, status int) {
	v, n, st := refVarint32(p)
	if st != 0 {
		return nil, nil, st
	}
	p = p[n:]
	if uint64(v) > uint64(len(p)) {
		return nil, nil, 1
	}
	return p[:v], p[v:], 0
}

// refDecode decodes the records that follow the header.
func refDecode(repr []byte) (es []ent, status int, why string) {
	if len(repr) < headerLen {
		return nil, refInvalid, "short header"
	}
	p := repr[headerLen:]
	for len(p) > 0 {
		k := p[0]
		if k > kMax {
			return es, refInvalid, fmt.Sprintf("kind 0x%x > max", k)
		}
		key, rest, st := refStr(p[1:])
		if st == 2 {
			return es, refAmbiguous, "key length varint"
		} else if st == 1 {
			return es, refInvalid, "key string"
		}
		var val []byte
		if hasValue(k) {
			val, rest, st = refStr(rest)
			if st == 2 {
				return es, refAmbiguous, "value length varint"
			} else if st == 1 {
				return es, refInvalid, "value string"
			}
		}
		es = append(es, ent{k, key, val})
		p = rest
	}
	return es, refValid, ""
}

// ---- model of the memtable contents of a batch applied at seqnum base (part c) ----

type point struct {
	Key  string
	Kind byte
	Seq  uint64
	Val  string
}

type spanKey struct {
	Seq  uint64
	Kind byte
	Suf  string
	Val  string
}

type span struct {
	Start, End string
	Keys       []spanKey
}

type dump struct {
	Fwd, Bwd     []point
	Flush        []point
	Dels, DelsB  []span
	RKeys, RKeyB []span
}

func (d dump) String() string {
	return fmt.Sprintf("fwd=%v bwd=%v flush=%v dels=%v delsB=%v rkeys=%v rkeysB=%v", d.Fwd, d.Bwd, d.Flush, d.Dels, d.DelsB, d.RKeys, d.RKeyB)
}

func reversePoints(p []point) []point {
	r := make([]point, len(p))
	for i := range p {
		r[len(p)-1-i] = p[i]
	}
	return r
}

func reverseSpans(p []span) []span {
	r := make([]span, len(p))
	for i := range p {
		r[len(p)-1-i] = p[i]
	}
	return r
}

type rawSpan struct {
	start, end string
	key        spanKey
}

func fragment(raw []rawSpan) []span {
	bset := map[string]bool{}
	for _, r := range raw {
		bset[r.start] = true
		bset[r.end] = true
	}
	var bs []string
	for b := range bset {
		bs = append(bs, b)
	}
	sort.Strings(bs)
	var out []span
	for i := 0; i+1 < len(bs); i++ {
		x, y := bs[i], bs[i+1]
		var ks []spanKey
		for _, r := range raw {
			if r.start < r.end && r.start <= x && y <= r.end {
				ks = append(ks, r.key)
			}
		}
		if len(ks) == 0 {
			continue
		}
		// trailer = seq<<8|kind, descending
		sort.Slice(ks, func(a, b int) bool {
			ta, tb := ks[a].Seq<<8|uint64(ks[a].Kind), ks[b].Seq<<8|uint64(ks[b].Kind)
			return ta > tb
		})
		out = append(out, span{Start: x, End: y, Keys: ks})
	}
	return out
}

// modelDump is what a memtable (or flushable batch) holding ops at seqnum base must iterate.
func modelDump(ops []Op, base uint64) dump {
	var d dump
	var dels, rks []rawSpan
	seq := base
	for _, o := range ops {
		r := o.record()
		switch o.K {
		case "logdata":
			continue // consumes no sequence number
		case "delrange":
			dels = append(dels, rawSpan{o.Key, o.End, spanKey{Seq: seq, Kind: kRangeDelete}})
		case "rkdel":
			rks = append(rks, rawSpan{o.Key, o.End, spanKey{Seq: seq, Kind: kRangeKeyDel}})
		case "rkset":
			rks = append(rks, rawSpan{o.Key, o.End, spanKey{Seq: seq, Kind: kRangeKeySet, Suf: o.Suf, Val: o.Val}})
		case "rkunset":
			rks = append(rks, rawSpan{o.Key, o.End, spanKey{Seq: seq, Kind: kRangeKeyUnset, Suf: o.Suf}})
		default:
			d.Fwd = append(d.Fwd, point{Key: o.Key, Kind: r.kind, Seq: seq, Val: string(r.val)})
		}
		seq++
	}
	sort.SliceStable(d.Fwd, func(a, b int) bool {
		if d.Fwd[a].Key != d.Fwd[b].Key {
			return d.Fwd[a].Key < d.Fwd[b].Key
		}
		return d.Fwd[a].Seq > d.Fwd[b].Seq
	})
	d.Bwd = reversePoints(d.Fwd)
	d.Flush = d.Fwd
	d.Dels = fragment(dels)
	d.DelsB = reverseSpans(d.Dels)
	d.RKeys = fragment(rks)
	d.RKeyB = reverseSpans(d.RKeys)
	return d
}

func pointsEqual(a, b []point) bool {
	if len(a) != len(b) {
		return false
	}
	for i := range a {
		if a[i] != b[i] {
			return false
		}
	}
	return true
}

func spansEqual(a, b []span) bool {
	if len(a) != len(b) {
		return false
	}
	for i := range a {
		if a[i].Start != b[i].Start || a[i].End != b[i].End || len(a[i].Keys) != len(b[i].Keys) {
			return false
		}
		for j := range a[i].Keys {
			if a[i].Keys[j] != b[i].Keys[j] {
				return false
			}
		}
	}
	return true
}

// dumpDiff returns "" when the two dumps are identical, else the name of the first differing view.
func dumpDiff(a, b dump) string {
	switch {
	case !pointsEqual(a.Fwd, b.Fwd):
		return "points-forward"
	case !pointsEqual(a.Bwd, b.Bwd):
		return "points-backward"
	case !pointsEqual(a.Flush, b.Flush):
		return "flush-iter"
	case !spansEqual(a.Dels, b.Dels):
		return "rangedels-forward"
	case !spansEqual(a.DelsB, b.DelsB):
		return "rangedels-backward"
	case !spansEqual(a.RKeys, b.RKeys):
		return "rangekeys-forward"
	case !spansEqual(a.RKeyB, b.RKeyB):
		return "rangekeys-backward"
	}
	return ""
}
