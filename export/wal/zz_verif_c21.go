//go:build verif

package wal

import (
	"io"
	"sync"

	"github.com/cockroachdb/pebble/vfs"
	"github.com/prometheus/client_golang/prometheus"
)

// VerifFW exposes the real failoverWriter to the /verif scheduler harness (C21), built the way
// failover_writer_test.go builds it.
type VerifFW struct {
	ww   *failoverWriter
	st   *stopper
	dirs [numDirIndices]dirAndFileHandle
	qsem chan struct{}
	// Closed is what the writerClosed callback reported: (file name index, dir) of every segment.
	Closed []string
}

// VerifNewFailoverWriter creates the writer on directories "pri" and "sec" of fs (they must exist).
// Every goroutine it starts is spawned from the calling goroutine's context (stopper.runAsync).
func VerifNewFailoverWriter(fs vfs.FS, wn NumWAL, walSyncFormat bool) (*VerifFW, error) {
	return VerifNewFailoverWriterCreated(fs, wn, walSyncFormat, nil)
}

// VerifNewFailoverWriterCreated additionally passes the writer's own test hook: one value is sent
// on created (give it a buffer) each time a physical log writer has been created and installed.
func VerifNewFailoverWriterCreated(
	fs vfs.FS, wn NumWAL, walSyncFormat bool, created chan<- struct{},
) (*VerifFW, error) {
	v := &VerifFW{st: newStopper(), qsem: make(chan struct{}, 64)}
	v.dirs = [numDirIndices]dirAndFileHandle{{Dir: Dir{FS: fs, Dirname: "pri"}}, {Dir: Dir{FS: fs, Dirname: "sec"}}}
	for i := range v.dirs {
		f, err := fs.OpenDir(v.dirs[i].Dirname)
		if err != nil {
			return nil, err
		}
		v.dirs[i].File = f
	}
	var err error
	v.ww, err = newFailoverWriter(failoverWriterOpts{
		wn:                          wn,
		primaryDir:                  v.dirs[primaryDirIndex].Dir,
		secondaryDir:                v.dirs[secondaryDirIndex].Dir,
		timeSource:                  defaultTime{},
		logCreator:                  simpleLogCreator,
		preallocateSize:             func() int { return 0 },
		queueSemChan:                v.qsem,
		stopper:                     v.st,
		failoverWriteAndSyncLatency: prometheus.NewHistogram(prometheus.HistogramOpts{}),
		writerClosed: func(l logicalLogWithSizesEtc) {
			for _, s := range l.segments {
				v.Closed = append(v.Closed, s.segment.String())
			}
		},
		segmentClosed:        func(_ logicalLogWithSizesEtc) {},
		writeWALSyncOffsets:  func() bool { return walSyncFormat },
		writerCreatedForTest: created,
	}, v.dirs[primaryDirIndex])
	return v, err
}

// Write writes one record; with wg != nil it requests a sync (the caller must have done wg.Add(1)).
func (v *VerifFW) Write(p []byte, wg *sync.WaitGroup, errp *error) (int64, error) {
	var so SyncOptions
	if wg != nil {
		v.qsem <- struct{}{}
		so = SyncOptions{Done: wg, Err: errp}
	}
	return v.ww.WriteRecord(p, so, nil)
}

// Switch asks the writer to switch to directory 0 (primary) or 1 (secondary).
func (v *VerifFW) Switch(dir int) error { return v.ww.switchToNewDir(v.dirs[dir]) }

func (v *VerifFW) Close() (int64, error) { return v.ww.Close() }

// Stop waits for every goroutine of the writer.
func (v *VerifFW) Stop() {
	v.st.stop()
	for i := range v.dirs {
		v.dirs[i].File.Close()
	}
}

// QueueLen is the number of sync-queue semaphore slots still taken.
func (v *VerifFW) QueueLen() int { return len(v.qsem) }

// VerifReadBack reads the logical WAL wn back with the real Scan + OpenForRead.
func VerifReadBack(fs vfs.FS, wn NumWAL) (recs [][]byte, segs []string, err error) {
	logs, err := Scan(Dir{FS: fs, Dirname: "pri"}, Dir{FS: fs, Dirname: "sec"})
	if err != nil {
		return nil, nil, err
	}
	for _, ll := range logs {
		if ll.Num != wn {
			continue
		}
		segs = append(segs, ll.String())
		r := ll.OpenForRead()
		for {
			rr, _, err := r.NextRecord()
			if err == io.EOF {
				break
			}
			if err != nil {
				r.Close()
				return recs, segs, err
			}
			b, err := io.ReadAll(rr)
			if err != nil {
				r.Close()
				return recs, segs, err
			}
			recs = append(recs, b)
		}
		if err := r.Close(); err != nil {
			return recs, segs, err
		}
	}
	return recs, segs, nil
}
