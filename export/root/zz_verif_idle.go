//go:build verif

package pebble

import (
	"sync"

	"github.com/cockroachdb/pebble/internal/manifest"
)

// verifHeld holds the DBs whose flushes a harness is holding back (VerifHoldFlushes).
var verifHeld sync.Map

// VerifWaitIdle waits, without any clock, until no flush, compaction or download is running and
// nothing more gets scheduled: under DB.mu it asks the DB to schedule whatever is pending and waits
// on the compaction condition variable (the pattern compactMarkedFilesLocked uses).
func (d *DB) VerifWaitIdle() {
	d.mu.Lock()
	defer d.mu.Unlock()
	_, held := verifHeld.Load(d)
	for {
		d.maybeScheduleFlush()
		d.maybeScheduleCompaction()
		if d.mu.compact.compactingCount > 0 || d.mu.compact.downloadingCount > 0 || (d.mu.compact.flushing && !held) {
			d.mu.compact.cond.Wait()
			continue
		}
		// A table-stats job that is running, or due (its goroutine may not have started yet), can
		// still schedule delete-only / elision-only compactions when it finishes.
		if !d.opts.DisableTableStats && d.closed.Load() == nil &&
			(d.mu.tableStats.loading || len(d.mu.tableStats.pending) > 0 || !d.mu.tableStats.loadedInitial) {
			d.maybeCollectTableStatsLocked()
			d.mu.tableStats.cond.Wait()
			continue
		}
		return
	}
}

// VerifPinnedVersion returns the current version pinned through a read state (as an iterator pins
// it), so that none of its files can be deleted until release is called.
func (d *DB) VerifPinnedVersion() (v *manifest.Version, release func()) {
	rs := d.loadReadState()
	return rs.current, rs.unref
}

// VerifHoldFlushes holds back every flush until VerifReleaseFlushes: it waits for a running flush
// and then marks one as in progress, the knob Pebble's own data-driven tests use
// (d.mu.compact.flushing = true). Queued flushables (memtables, large batches, ingested tables with
// their excise spans) then stay in the queue, where reads must see through them. While flushes are
// held, anything that waits for a flush (Flush, Compact over the memtable, Close, ...) blocks.
func (d *DB) VerifHoldFlushes() {
	d.mu.Lock()
	defer d.mu.Unlock()
	if _, held := verifHeld.Load(d); held {
		return
	}
	for d.mu.compact.flushing {
		d.mu.compact.cond.Wait()
	}
	d.mu.compact.flushing = true
	verifHeld.Store(d, struct{}{})
}

// VerifReleaseFlushes undoes VerifHoldFlushes and schedules whatever is pending.
func (d *DB) VerifReleaseFlushes() {
	d.mu.Lock()
	defer d.mu.Unlock()
	if _, held := verifHeld.LoadAndDelete(d); !held {
		return
	}
	d.mu.compact.flushing = false
	d.maybeScheduleFlush()
	d.mu.compact.cond.Broadcast()
}
