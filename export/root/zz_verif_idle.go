//go:build verif

package pebble

import "github.com/cockroachdb/pebble/internal/manifest"

// VerifWaitIdle waits, without any clock, until no flush, compaction or download is running and
// nothing more gets scheduled: under DB.mu it asks the DB to schedule whatever is pending and waits
// on the compaction condition variable (the pattern compactMarkedFilesLocked uses).
func (d *DB) VerifWaitIdle() {
	d.mu.Lock()
	defer d.mu.Unlock()
	for {
		d.maybeScheduleFlush()
		d.maybeScheduleCompaction()
		if d.mu.compact.compactingCount > 0 || d.mu.compact.downloadingCount > 0 || d.mu.compact.flushing {
			d.mu.compact.cond.Wait()
			continue
		}
		// A table-stats job that is running, or due (its goroutine may not have started yet), can
		// still schedule delete-only / elision-only compactions when it finishes.
		if !d.opts.DisableTableStats && d.closed.Load() == nil &&
			(d.mu.tableStats.loading || len(d.mu.tableStats.pending) > 0 || !d.mu.tableStats.loadedInitial) {
			d.maybeCollectTableStatsLocked()
			d.mu.tableStats.cond.Wait()
			continue
		}
		return
	}
}

// VerifPinnedVersion returns the current version pinned through a read state (as an iterator pins
// it), so that none of its files can be deleted until release is called.
func (d *DB) VerifPinnedVersion() (v *manifest.Version, release func()) {
	rs := d.loadReadState()
	return rs.current, rs.unref
}
