//go:build verif

// Thin constructors that expose the unexported mergingIter / levelIter stack of package pebble to
// the C33 harness (/verif/harness/c33). Nothing here copies or changes Pebble logic: the wiring is
// the one DB.constructPointIter performs (levelIter.init + initRangeDel per file level, a
// memtable's newIter + newRangeDelIter for a memtable level, mergingIter.init, snapshot), and the
// tableNewIters function is the glue level_iter_test.go / merging_iter_test.go use (open a point
// iterator and a raw range-deletion iterator of an already opened sstable.Reader).
package pebble

import (
	"context"

	"github.com/cockroachdb/errors"
	"github.com/cockroachdb/pebble/internal/base"
	"github.com/cockroachdb/pebble/internal/manifest"
	"github.com/cockroachdb/pebble/sstable"
)

// VerifC33Table is one sstable of a level: its metadata (bounds as reported by the sstable
// writer) and an opened reader.
type VerifC33Table struct {
	Meta   *manifest.TableMetadata
	Reader *sstable.Reader
}

// VerifC33Mem is a real memTable used as a merging level (what DB.constructPointIter does for
// every memtable of the read state).
type VerifC33Mem struct {
	m *memTable
}

// VerifC33NewMem allocates an empty memTable through memTable.init. opts must have had
// EnsureDefaults called.
func VerifC33NewMem(opts *Options, size int) *VerifC33Mem {
	m := new(memTable)
	m.init(memTableOptions{Options: opts, size: size, logSeqNum: 0,
		releaseAccountingReservation: func() {}})
	return &VerifC33Mem{m: m}
}

// Apply forwards to memTable.prepare + memTable.apply (the batch's entries get seqNum, seqNum+1, ...).
func (v *VerifC33Mem) Apply(b *Batch, seqNum base.SeqNum) error {
	if err := v.m.prepare(b); err != nil {
		return err
	}
	if err := v.m.apply(b, seqNum); err != nil {
		return err
	}
	v.m.writerUnref()
	return nil
}

// Free releases the arena.
func (v *VerifC33Mem) Free() {
	if v.m != nil {
		v.m.free()
		v.m = nil
	}
}

// VerifC33Level describes one level of the merging iterator: either a memtable (Mem != nil) or
// the key-sorted, disjoint tables of a file level (wrapped in a levelIter).
type VerifC33Level struct {
	Mem    *VerifC33Mem
	Tables []VerifC33Table
}

// VerifC33Stack is a set of levels prepared for iterator construction (level slices and the
// tableNewIters function are built once per layout).
type VerifC33Stack struct {
	comparer *Comparer
	levels   []VerifC33Level
	slices   []manifest.LevelSlice
	newIters tableNewIters
}

// VerifC33NewStack prepares levels (levels[0] is the newest).
func VerifC33NewStack(comparer *Comparer, levels []VerifC33Level) *VerifC33Stack {
	s := &VerifC33Stack{comparer: comparer, levels: levels, slices: make([]manifest.LevelSlice, len(levels))}
	readers := map[base.TableNum]*sstable.Reader{}
	for i, l := range levels {
		metas := make([]*manifest.TableMetadata, len(l.Tables))
		for j, t := range l.Tables {
			readers[t.Meta.TableNum] = t.Reader
			metas[j] = t.Meta
		}
		if l.Mem == nil {
			s.slices[i] = manifest.NewLevelSliceKeySorted(comparer.Compare, metas)
		}
	}
	s.newIters = func(
		ctx context.Context, file *manifest.TableMetadata, opts *IterOptions, iio internalIterOpts, kinds iterKinds,
	) (iterSet, error) {
		r := readers[file.TableNum]
		var set iterSet
		if kinds.Point() {
			iter, err := r.NewPointIter(ctx, sstable.IterOptions{
				Lower:                opts.GetLowerBound(),
				Upper:                opts.GetUpperBound(),
				Transforms:           file.IterTransforms(),
				FilterBlockSizeLimit: sstable.AlwaysUseFilterBlock,
				Env:                  iio.readEnv,
				ReaderProvider:       sstable.MakeTrivialReaderProvider(r),
				BlobContext: sstable.TableBlobContext{
					ValueFetcher: iio.blobValueFetcher,
					References:   &file.BlobReferences,
				},
			})
			if err != nil {
				return iterSet{}, errors.CombineErrors(err, set.CloseAll())
			}
			set.point = iter
		}
		if kinds.RangeDeletion() {
			rangeDelIter, err := r.NewRawRangeDelIter(ctx, file.FragmentIterTransforms(), sstable.NoReadEnv)
			if err != nil {
				return iterSet{}, errors.CombineErrors(err, set.CloseAll())
			}
			set.rangeDeletion = rangeDelIter
		}
		return set, nil
	}
	return s
}

// VerifC33MaxLevels bounds the number of levels of a stack.
const VerifC33MaxLevels = 3

// VerifC33Iter is the constructed iterator stack. The structs live inline (like DB's iterAlloc)
// so that a harness can reuse the memory: NewIter zeroes the whole value before wiring it.
type VerifC33Iter struct {
	Iter    base.InternalIterator // the *mergingIter
	Stats   base.InternalIteratorStats
	opts    IterOptions
	m       mergingIter
	lis     [VerifC33MaxLevels]levelIter
	mlevels [VerifC33MaxLevels]mergingIterLevel
}

// NewIter wires the levels into a mergingIter the way DB.constructPointIter does. lower/upper may
// be nil. snapshot is mergingIter.snapshot (the iterator's read sequence number: entries with
// seqnum < snapshot are visible). If reuse is non-nil its memory is zeroed and reused (it must
// have been closed).
func (s *VerifC33Stack) NewIter(reuse *VerifC33Iter, lower, upper []byte, snapshot base.SeqNum) *VerifC33Iter {
	v := reuse
	if v == nil {
		v = &VerifC33Iter{}
	} else {
		*v = VerifC33Iter{}
	}
	v.opts = IterOptions{LowerBound: lower, UpperBound: upper}
	n := len(s.levels)
	for i, l := range s.levels {
		if l.Mem != nil {
			v.mlevels[i] = mergingIterLevel{
				iter:         l.Mem.m.newIter(&v.opts),
				rangeDelIter: l.Mem.m.newRangeDelIter(&v.opts),
			}
			continue
		}
		li := &v.lis[i]
		li.init(context.Background(), v.opts, s.comparer, s.newIters, s.slices[i].Iter(), manifest.Level(i+1), internalIterOpts{})
		li.initRangeDel(&v.mlevels[i])
		v.mlevels[i].levelIter = li
		v.mlevels[i].iter = li
	}
	v.m.init(&v.opts, &v.Stats, s.comparer.Compare, s.comparer.Split, v.mlevels[:n]...)
	v.m.snapshot = snapshot
	v.Iter = &v.m
	return v
}

// Close forwards to mergingIter.Close.
func (v *VerifC33Iter) Close() error { return v.m.Close() }
