//go:build verif

// Thin constructors that expose the unexported mergingIter / levelIter stack of package pebble to
// the C33 harness (/verif/harness/c33). Nothing here copies or changes Pebble logic: the wiring is
// the one DB.constructPointIter performs (levelIter.init + initRangeDel per file level, a
// memtable's newIter + newRangeDelIter for a memtable level, mergingIter.init, snapshot), and the
// tableNewIters function is the glue level_iter_test.go / merging_iter_test.go use (open a point
// iterator and a raw range-deletion iterator of an already opened sstable.Reader).
package pebble

import (
	"context"

	"github.com/cockroachdb/errors"
	"github.com/cockroachdb/pebble/internal/base"
	"github.com/cockroachdb/pebble/internal/manifest"
	"github.com/cockroachdb/pebble/sstable"
)

// VerifC33Table is one sstable of a level: its metadata (bounds as reported by the sstable
// writer) and an opened reader.
type VerifC33Table struct {
	Meta   *manifest.TableMetadata
	Reader *sstable.Reader
}

// VerifC33Mem is a real memTable used as a merging level (what DB.constructPointIter does for
// every memtable of the read state).
type VerifC33Mem struct {
	m *memTable
}

// VerifC33NewMem allocates an empty memTable through memTable.init. opts must have had
// EnsureDefaults called.
func VerifC33NewMem(opts *Options, size int) *VerifC33Mem {
	m := new(memTable)
	m.init(memTableOptions{Options: opts, size: size, logSeqNum: 0,
		releaseAccountingReservation: func() {}})
	return &VerifC33Mem{m: m}
}

// Apply forwards to memTable.prepare + memTable.apply (the batch's entries get seqNum, seqNum+1, ...).
func (v *VerifC33Mem) Apply(b *Batch, seqNum base.SeqNum) error {
	if err := v.m.prepare(b); err != nil {
		return err
	}
	if err := v.m.apply(b, seqNum); err != nil {
		return err
	}
	v.m.writerUnref()
	return nil
}

// Free releases the arena.
func (v *VerifC33Mem) Free() {
	if v.m != nil {
		v.m.free()
		v.m = nil
	}
}

// VerifC33Level describes one level of the merging iterator: either a memtable (Mem != nil) or
// the key-sorted, disjoint tables of a file level (wrapped in a levelIter).
type VerifC33Level struct {
	Mem    *VerifC33Mem
	Tables []VerifC33Table
}

// VerifC33Iter is the constructed stack.
type VerifC33Iter struct {
	Iter  base.InternalIterator // the *mergingIter
	Stats base.InternalIteratorStats
	m     *mergingIter
	// ItersCreated counts newIters calls (file loads).
	ItersCreated int
}

// VerifC33NewMergingIter wires levels into a mergingIter the way DB.constructPointIter does:
// levels[0] is the newest. lower/upper may be nil. snapshot is mergingIter.snapshot (the
// iterator's read sequence number: entries with seqnum < snapshot are visible).
func VerifC33NewMergingIter(
	comparer *Comparer, levels []VerifC33Level, lower, upper []byte, snapshot base.SeqNum,
) *VerifC33Iter {
	v := &VerifC33Iter{}
	readers := map[base.TableNum]*sstable.Reader{}
	for _, l := range levels {
		for _, t := range l.Tables {
			readers[t.Meta.TableNum] = t.Reader
		}
	}
	newIters := func(
		ctx context.Context, file *manifest.TableMetadata, opts *IterOptions, iio internalIterOpts, kinds iterKinds,
	) (iterSet, error) {
		v.ItersCreated++
		r := readers[file.TableNum]
		var set iterSet
		if kinds.Point() {
			iter, err := r.NewPointIter(ctx, sstable.IterOptions{
				Lower:                opts.GetLowerBound(),
				Upper:                opts.GetUpperBound(),
				Transforms:           file.IterTransforms(),
				FilterBlockSizeLimit: sstable.AlwaysUseFilterBlock,
				Env:                  iio.readEnv,
				ReaderProvider:       sstable.MakeTrivialReaderProvider(r),
				BlobContext: sstable.TableBlobContext{
					ValueFetcher: iio.blobValueFetcher,
					References:   &file.BlobReferences,
				},
			})
			if err != nil {
				return iterSet{}, errors.CombineErrors(err, set.CloseAll())
			}
			set.point = iter
		}
		if kinds.RangeDeletion() {
			rangeDelIter, err := r.NewRawRangeDelIter(ctx, file.FragmentIterTransforms(), sstable.NoReadEnv)
			if err != nil {
				return iterSet{}, errors.CombineErrors(err, set.CloseAll())
			}
			set.rangeDeletion = rangeDelIter
		}
		return set, nil
	}

	opts := IterOptions{LowerBound: lower, UpperBound: upper}
	mlevels := make([]mergingIterLevel, len(levels))
	for i, l := range levels {
		if l.Mem != nil {
			mlevels[i] = mergingIterLevel{
				iter:         l.Mem.m.newIter(&opts),
				rangeDelIter: l.Mem.m.newRangeDelIter(&opts),
			}
			continue
		}
		metas := make([]*manifest.TableMetadata, len(l.Tables))
		for j := range l.Tables {
			metas[j] = l.Tables[j].Meta
		}
		slice := manifest.NewLevelSliceKeySorted(comparer.Compare, metas)
		li := &levelIter{}
		li.init(context.Background(), opts, comparer, newIters, slice.Iter(), manifest.Level(i+1), internalIterOpts{})
		li.initRangeDel(&mlevels[i])
		mlevels[i].levelIter = li
		mlevels[i].iter = li
	}
	m := &mergingIter{}
	m.init(&opts, &v.Stats, comparer.Compare, comparer.Split, mlevels...)
	m.snapshot = snapshot
	v.m = m
	v.Iter = m
	return v
}

// Close forwards to mergingIter.Close.
func (v *VerifC33Iter) Close() error { return v.m.Close() }

