//go:build verif

package pebble

import (
	"sync"

	"github.com/cockroachdb/pebble/internal/base"
	"github.com/cockroachdb/pebble/internal/manual"
)

// VerifPipeline is the real commitPipeline + commitQueue over a real memTable, with a recording
// commitEnv (as commit_test.go builds one), exposed to the /verif scheduler harness.
type VerifPipeline struct {
	p             *commitPipeline
	mem           *memTable
	logSeqNum     base.AtomicSeqNum
	visibleSeqNum base.AtomicSeqNum
	opts          *Options
	// Log records, in WAL (commitPipeline.mu) order, the seqnum range of every batch written.
	Log [][2]uint64
	// VisibleAtWrite records visibleSeqNum as observed at every write.
	VisibleAtWrite []uint64
	// Applied[seq] is set when apply has finished for the batch starting at seq.
	appliedMu sync.Mutex
	Applied   map[uint64]bool
}

// VerifKV is one visible entry.
type VerifKV struct {
	K, V string
	Seq  uint64
}

func NewVerifPipeline(memSize int) *VerifPipeline {
	v := &VerifPipeline{Applied: map[uint64]bool{}}
	v.opts = &Options{}
	v.opts.EnsureDefaults()
	v.logSeqNum.Store(base.SeqNumStart)
	v.visibleSeqNum.Store(base.SeqNumStart)
	v.mem = newMemTable(memTableOptions{Options: v.opts, arenaBuf: manual.Buf{}, size: memSize, logSeqNum: base.SeqNumStart})
	v.mem.writerRef() // the queue's reference, so that writerUnref never reports "last"
	env := commitEnv{
		logSeqNum:     &v.logSeqNum,
		visibleSeqNum: &v.visibleSeqNum,
		apply: func(b *Batch, mem *memTable) error {
			err := mem.apply(b, b.SeqNum())
			v.appliedMu.Lock()
			v.Applied[uint64(b.SeqNum())] = true
			v.appliedMu.Unlock()
			mem.writerUnref()
			return err
		},
		write: func(b *Batch, wg *sync.WaitGroup, err *error) (*memTable, error) {
			// serial execution enforced by commitPipeline.mu
			v.Log = append(v.Log, [2]uint64{uint64(b.SeqNum()), uint64(b.SeqNum()) + uint64(b.Count())})
			v.VisibleAtWrite = append(v.VisibleAtWrite, uint64(v.visibleSeqNum.Load()))
			if e := v.mem.prepare(b); e != nil {
				return nil, e
			}
			if wg != nil {
				wg.Done() // "synced" immediately
			}
			return v.mem, nil
		},
	}
	v.p = newCommitPipeline(env)
	return v
}

// Commit commits one batch of Sets through the real pipeline.
func (v *VerifPipeline) Commit(keys []string, val string, syncWAL bool) (seq uint64, err error) {
	b := newBatch(nil)
	for _, k := range keys {
		if err := b.Set([]byte(k), []byte(val), nil); err != nil {
			return 0, err
		}
	}
	err = v.p.Commit(b, syncWAL, false)
	return uint64(b.SeqNum()), err
}

// AllocateSeqNum drives commitPipeline.AllocateSeqNum (the ingest path).
func (v *VerifPipeline) AllocateSeqNum(count int) {
	v.p.AllocateSeqNum(count, func(seqNum base.SeqNum) {}, func(seqNum base.SeqNum) {})
}

func (v *VerifPipeline) Visible() uint64 { return uint64(v.visibleSeqNum.Load()) }

// Scan reads the memtable the way a DB iterator does: load the visible sequence number first, then
// iterate; for every user key the newest entry below the visible seqnum wins.
func (v *VerifPipeline) Scan(backward bool) (visible uint64, out []VerifKV) {
	visible = uint64(v.visibleSeqNum.Load())
	it := v.mem.newIter(nil)
	defer it.Close()
	if !backward {
		last := ""
		have := false
		for kv := it.First(); kv != nil; kv = it.Next() {
			if uint64(kv.K.SeqNum()) >= visible {
				continue
			}
			k := string(kv.K.UserKey)
			if have && k == last {
				continue
			}
			val, _, _ := kv.Value(nil)
			out = append(out, VerifKV{K: k, V: string(val), Seq: uint64(kv.K.SeqNum())})
			last, have = k, true
		}
		return visible, out
	}
	// backward: entries of one user key arrive oldest first; keep the newest visible one
	cur := -1
	for kv := it.Last(); kv != nil; kv = it.Prev() {
		if uint64(kv.K.SeqNum()) >= visible {
			continue
		}
		k := string(kv.K.UserKey)
		val, _, _ := kv.Value(nil)
		e := VerifKV{K: k, V: string(val), Seq: uint64(kv.K.SeqNum())}
		if cur >= 0 && out[cur].K == k {
			out[cur] = e
			continue
		}
		out = append(out, e)
		cur = len(out) - 1
	}
	for i, j := 0, len(out)-1; i < j; i, j = i+1, j-1 {
		out[i], out[j] = out[j], out[i]
	}
	return visible, out
}
