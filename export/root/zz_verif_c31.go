//go:build verif

// Thin wrappers that expose unexported entry points of package pebble to the C31 harness
// (/verif/harness/c31). Nothing here copies or changes Pebble logic: every function forwards to
// the real unexported function.
package pebble

import (
	"github.com/cockroachdb/pebble/internal/base"
	"github.com/cockroachdb/pebble/internal/keyspan"
)

// VerifC31Flushable wraps either a flushableBatch or a memTable behind the flushable interface.
type VerifC31Flushable struct {
	f   flushable
	mem *memTable
}

// VerifC31NewFlushableBatch forwards to newFlushableBatch.
func VerifC31NewFlushableBatch(b *Batch, cmp *Comparer) (*VerifC31Flushable, error) {
	f, err := newFlushableBatch(b, cmp)
	if err != nil {
		return nil, err
	}
	return &VerifC31Flushable{f: f}, nil
}

// SetSeqNum forwards to flushableBatch.setSeqNum (what the commit pipeline calls for a large batch).
func (v *VerifC31Flushable) SetSeqNum(s base.SeqNum) { v.f.(*flushableBatch).setSeqNum(s) }

// VerifC31NewMemTable allocates an empty memTable of the given arena size through memTable.init.
// opts must already have had EnsureDefaults called (it is only read).
func VerifC31NewMemTable(opts *Options, size int, logSeqNum base.SeqNum) *VerifC31Flushable {
	m := new(memTable)
	m.init(memTableOptions{Options: opts, size: size, logSeqNum: logSeqNum,
		releaseAccountingReservation: func() {}})
	return &VerifC31Flushable{f: m, mem: m}
}

// Prepare forwards to memTable.prepare.
func (v *VerifC31Flushable) Prepare(b *Batch) error { return v.mem.prepare(b) }

// Apply forwards to memTable.apply.
func (v *VerifC31Flushable) Apply(b *Batch, seqNum base.SeqNum) error { return v.mem.apply(b, seqNum) }

// Free releases the memtable arena (no-op for a flushable batch).
func (v *VerifC31Flushable) Free() {
	if v.mem != nil {
		v.mem.free()
		v.mem = nil
	}
}

func (v *VerifC31Flushable) NewIter() base.InternalIterator      { return v.f.newIter(nil) }
func (v *VerifC31Flushable) NewFlushIter() base.InternalIterator { return v.f.newFlushIter(nil) }
func (v *VerifC31Flushable) NewRangeDelIter() keyspan.FragmentIterator {
	return v.f.newRangeDelIter(nil)
}
func (v *VerifC31Flushable) NewRangeKeyIter() keyspan.FragmentIterator {
	return v.f.newRangeKeyIter(nil)
}
func (v *VerifC31Flushable) ContainsRangeKeys() bool { return v.f.containsRangeKeys() }

// VerifC31MemTableSize returns Batch.memTableSize.
func VerifC31MemTableSize(b *Batch) uint64 { return b.memTableSize }

// VerifC31NewReplayBatch returns a batch initialised the way DB.replayWAL does it
// (`b = Batch{}; b.db = d`), so that SetRepr runs refreshMemTableSize.
func VerifC31NewReplayBatch(d *DB) *Batch {
	b := &Batch{}
	b.db = d
	return b
}

// VerifC31LargeBatchThreshold returns DB.largeBatchThreshold.
func VerifC31LargeBatchThreshold(d *DB) uint64 { return uint64(d.largeBatchThreshold) }

// VerifC31ReplayIngestedFlushable forwards to DB.replayIngestedFlushable (the branch of
// DB.replayWAL taken when the first record of a WAL batch is IngestSST/IngestSSTWithBlobs/Excise).
func VerifC31ReplayIngestedFlushable(d *DB, b *Batch) error {
	_, err := d.replayIngestedFlushable(b, base.DiskFileNum(1))
	return err
}

// VerifC31MemTableEmptySize returns memTableEmptySize.
func VerifC31MemTableEmptySize() uint64 { return uint64(memTableEmptySize) }
