//go:build verif

// Accessors for the unexported ("private") Options fields that Options.String serialises, for the
// C46 harness (/verif/harness/c46). Nothing here copies or changes Pebble logic.
package pebble

// VerifC46SetPrivate sets the three private testing options that Options.String writes when true.
func VerifC46SetPrivate(o *Options, disableDeleteOnly, disableElisionOnly, disableLazyCombined bool) {
	o.private.disableDeleteOnlyCompactions = disableDeleteOnly
	o.private.disableElisionOnlyCompactions = disableElisionOnly
	o.private.disableLazyCombinedIteration = disableLazyCombined
}

// VerifC46GetPrivate reads them back.
func VerifC46GetPrivate(o *Options) (disableDeleteOnly, disableElisionOnly, disableLazyCombined bool) {
	return o.private.disableDeleteOnlyCompactions, o.private.disableElisionOnlyCompactions,
		o.private.disableLazyCombinedIteration
}

// VerifC46InternalFormatNewest returns internalFormatNewest (the newest, possibly experimental,
// format major version that Options.Validate accepts).
func VerifC46InternalFormatNewest() FormatMajorVersion { return internalFormatNewest }
