//go:build verif

package cache

// Read-only accessors for the C34 harness (block cache). Nothing here changes cache state.

// VerifReadMapLen returns the number of in-flight read entries over all shards (the readShard
// maps that coordinate GetWithReadHandle turn-taking).
func (c *Cache) VerifReadMapLen() int {
	n := 0
	for i := range c.shards {
		n += c.shards[i].readShard.lenForTesting()
	}
	return n
}

// VerifRefs returns the reference count of a value.
func (v *Value) VerifRefs() int32 { return v.refs() }

// VerifCounts returns the shard-0 page accounting: bytes and entry counts per Clock-PRO class and
// the number of entries in the blocks map.
func (c *Cache) VerifCounts() (sizeHot, sizeCold, sizeTest, countHot, countCold, countTest int64, blocks int) {
	s := &c.shards[0]
	s.mu.RLock()
	defer s.mu.RUnlock()
	return s.sizeHot, s.sizeCold, s.sizeTest, s.countHot, s.countCold, s.countTest, s.blocks.Len()
}
