//go:build verif

package cache

// VerifRefs returns the cache's reference count (C47: Close must drop every reference it took).
func (c *Cache) VerifRefs() int64 { return c.refs.Load() }
