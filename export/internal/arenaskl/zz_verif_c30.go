//go:build verif

package arenaskl

import "math"

// VerifRndForHeight returns a value of rand.Uint32() for which randomHeight() yields h.
func VerifRndForHeight(h uint32) uint32 {
	if h <= 1 {
		return math.MaxUint32
	}
	return probabilities[h-1]
}

// VerifLevels walks every level of the list forward (from head via next links) and backward (from
// tail via prev links) and returns the user keys with their trailers seen on each level.
func (s *Skiplist) VerifLevels() (fwd, bwd [][]string) {
	h := int(s.Height())
	for lvl := 0; lvl < h; lvl++ {
		var f, b []string
		for nd := s.getNext(s.head, lvl); nd != s.tail && nd != nil; nd = s.getNext(nd, lvl) {
			f = append(f, string(nd.getKeyBytes(s.arena)))
			if len(f) > 1000 {
				break
			}
		}
		for nd := s.getPrev(s.tail, lvl); nd != s.head && nd != nil; nd = s.getPrev(nd, lvl) {
			b = append(b, string(nd.getKeyBytes(s.arena)))
			if len(b) > 1000 {
				break
			}
		}
		fwd = append(fwd, f)
		bwd = append(bwd, b)
	}
	return fwd, bwd
}
