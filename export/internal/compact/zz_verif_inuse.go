//go:build verif

// Verification-only entry points for the sub-check C14-inuse (/verif/harness/inuse). They only give
// access to the unexported tombstone eliders that compact.Iter and the span compactors embed; no
// Pebble logic is copied or changed.

package compact

import "github.com/cockroachdb/pebble/internal/base"

// VerifPointElider wraps the pointTombstoneElider used by compact.Iter for DEL/SINGLEDEL keys.
type VerifPointElider struct{ e pointTombstoneElider }

// Init (re-)initialises the elider exactly as compact.NewIter does (i.delElider.Init).
func (p *VerifPointElider) Init(cmp base.Compare, elision TombstoneElision) { p.e.Init(cmp, elision) }

// ShouldElide forwards to pointTombstoneElider.ShouldElide. Keys must be supplied in order.
func (p *VerifPointElider) ShouldElide(key []byte) bool { return p.e.ShouldElide(key) }

// VerifRangeElider wraps the rangeTombstoneElider used by RangeDelSpanCompactor and
// RangeKeySpanCompactor.
type VerifRangeElider struct{ e rangeTombstoneElider }

// Init (re-)initialises the elider exactly as Make{RangeDel,RangeKey}SpanCompactor do.
func (p *VerifRangeElider) Init(cmp base.Compare, elision TombstoneElision) { p.e.Init(cmp, elision) }

// ShouldElide forwards to rangeTombstoneElider.ShouldElide. Start keys must be supplied in order.
func (p *VerifRangeElider) ShouldElide(start, end []byte) bool { return p.e.ShouldElide(start, end) }

// VerifInUseRanges returns the in-use ranges an elision carries (nil for "elide nothing") so that a
// counterexample can show them.
func (e TombstoneElision) VerifInUseRanges() []base.UserKeyBounds { return e.inUseRanges }
