//go:build verif

// Verification-only accessors for check C16 (/verif/harness/c16). They only READ unexported state of
// the L0 organizer; no Pebble logic is copied or changed.

package manifest

import (
	"strconv"
)

// VerifDumpL0State renders the complete internal state of the organizer's current l0Sublevels (the
// fields that TestAddL0FilesEquivalence compares with require.Equal: orderedIntervals, levelFiles,
// flushSplitUserKeys, plus the per-file state) as one deterministic string. The harness compares the
// dump of an incrementally built organizer with the dump of one built from scratch.
func (o *L0Organizer) VerifDumpL0State() string {
	s := o.l0Sublevels
	b := make([]byte, 0, 512)
	b = append(b, "fileBytes="...)
	b = strconv.AppendUint(b, s.fileBytes, 10)
	b = append(b, " split=["...)
	for _, k := range s.flushSplitUserKeys {
		b = append(b, k...)
		b = append(b, ',')
	}
	b = append(b, "]\n"...)
	for i := range s.orderedIntervals {
		iv := &s.orderedIntervals[i]
		b = append(b, "iv "...)
		b = strconv.AppendInt(b, int64(iv.index), 10)
		b = append(b, ' ')
		b = append(b, iv.startKey.key...)
		if iv.startKey.isInclusiveEndBound {
			b = append(b, '+')
		}
		b = append(b, " base="...)
		b = strconv.AppendBool(b, iv.isBaseCompacting)
		b = append(b, " rangeBase="...)
		b = strconv.AppendBool(b, iv.intervalRangeIsBaseCompacting)
		b = append(b, " fmin="...)
		b = strconv.AppendInt(b, int64(iv.filesMinIntervalIndex), 10)
		b = append(b, " fmax="...)
		b = strconv.AppendInt(b, int64(iv.filesMaxIntervalIndex), 10)
		b = append(b, " ccount="...)
		b = strconv.AppendInt(b, int64(iv.compactingFileCount), 10)
		b = append(b, " bytes="...)
		b = strconv.AppendUint(b, iv.estimatedBytes, 10)
		b = append(b, " files=["...)
		for _, f := range iv.files {
			b = strconv.AppendUint(b, uint64(f.TableNum), 10)
			b = append(b, ',')
		}
		b = append(b, "]\n"...)
	}
	for sl, files := range s.levelFiles {
		b = append(b, "sl "...)
		b = strconv.AppendInt(b, int64(sl), 10)
		b = append(b, ':')
		for _, f := range files {
			fs := s.state(f)
			b = append(b, ' ')
			b = strconv.AppendUint(b, uint64(f.TableNum), 10)
			b = append(b, '(')
			b = strconv.AppendInt(b, int64(fs.subLevel), 10)
			b = append(b, ';')
			b = strconv.AppendInt(b, int64(fs.minIntervalIndex), 10)
			b = append(b, '-')
			b = strconv.AppendInt(b, int64(fs.maxIntervalIndex), 10)
			b = append(b, ')')
		}
		b = append(b, '\n')
	}
	for sl := range s.Levels {
		b = append(b, "tree "...)
		b = strconv.AppendInt(b, int64(sl), 10)
		b = append(b, ':')
		for f := range s.Levels[sl].All() {
			b = append(b, ' ')
			b = strconv.AppendUint(b, uint64(f.TableNum), 10)
		}
		b = append(b, '\n')
	}
	return string(b)
}

// VerifL0StateEqual compares, field by field and without allocating, everything VerifDumpL0State prints.
func (o *L0Organizer) VerifL0StateEqual(p *L0Organizer) bool {
	a, b := o.l0Sublevels, p.l0Sublevels
	if a.fileBytes != b.fileBytes || len(a.flushSplitUserKeys) != len(b.flushSplitUserKeys) ||
		len(a.orderedIntervals) != len(b.orderedIntervals) || len(a.levelFiles) != len(b.levelFiles) ||
		len(a.Levels) != len(b.Levels) || len(a.fileState) != len(b.fileState) {
		return false
	}
	for i := range a.flushSplitUserKeys {
		if string(a.flushSplitUserKeys[i]) != string(b.flushSplitUserKeys[i]) {
			return false
		}
	}
	for i := range a.orderedIntervals {
		x, y := &a.orderedIntervals[i], &b.orderedIntervals[i]
		if x.index != y.index || string(x.startKey.key) != string(y.startKey.key) ||
			x.startKey.isInclusiveEndBound != y.startKey.isInclusiveEndBound ||
			x.isBaseCompacting != y.isBaseCompacting ||
			x.intervalRangeIsBaseCompacting != y.intervalRangeIsBaseCompacting ||
			x.filesMinIntervalIndex != y.filesMinIntervalIndex || x.filesMaxIntervalIndex != y.filesMaxIntervalIndex ||
			x.compactingFileCount != y.compactingFileCount || x.estimatedBytes != y.estimatedBytes ||
			len(x.files) != len(y.files) {
			return false
		}
		for j := range x.files {
			if x.files[j].TableNum != y.files[j].TableNum {
				return false
			}
		}
	}
	for sl := range a.levelFiles {
		if len(a.levelFiles[sl]) != len(b.levelFiles[sl]) || a.Levels[sl].Len() != b.Levels[sl].Len() {
			return false
		}
		for j, f := range a.levelFiles[sl] {
			g := b.levelFiles[sl][j]
			if f.TableNum != g.TableNum || *a.state(f) != *b.state(g) {
				return false
			}
		}
		ia, ib := a.Levels[sl].Iter(), b.Levels[sl].Iter()
		for f, g := ia.First(), ib.First(); f != nil || g != nil; f, g = ia.Next(), ib.Next() {
			if f == nil || g == nil || f.TableNum != g.TableNum {
				return false
			}
		}
	}
	return true
}

// VerifL0StateHash is a 64-bit FNV-1a style digest of the interval state (used only to count distinct
// organizer states reached).
func (o *L0Organizer) VerifL0StateHash() uint64 {
	s := o.l0Sublevels
	h := uint64(14695981039346656037)
	mix := func(v uint64) { h = (h ^ v) * 1099511628211 }
	bit := func(b bool) uint64 {
		if b {
			return 1
		}
		return 0
	}
	for i := range s.orderedIntervals {
		iv := &s.orderedIntervals[i]
		for _, c := range iv.startKey.key {
			mix(uint64(c))
		}
		mix(bit(iv.startKey.isInclusiveEndBound) | bit(iv.isBaseCompacting)<<1 | bit(iv.intervalRangeIsBaseCompacting)<<2)
		mix(uint64(iv.filesMinIntervalIndex)<<16 | uint64(iv.filesMaxIntervalIndex))
		mix(uint64(iv.compactingFileCount)<<32 | iv.estimatedBytes)
		for _, f := range iv.files {
			mix(uint64(f.TableNum)<<8 | uint64(s.state(f).subLevel))
		}
		mix(0xfff)
	}
	for _, k := range s.flushSplitUserKeys {
		for _, c := range k {
			mix(uint64(c))
		}
		mix(0xffe)
	}
	return h
}

// VerifCheckCompaction runs Pebble's own (otherwise unused) debugging helper checkCompaction on a
// picked candidate. The harness only records its verdict as a statistic next to the independent
// oracle; it does not decide violations.
func (o *L0Organizer) VerifCheckCompaction(c *L0CompactionFiles) error {
	return o.l0Sublevels.checkCompaction(c)
}

// VerifIsIntraL0 exposes the kind of a picked candidate.
func (c *L0CompactionFiles) VerifIsIntraL0() bool { return c.isIntraL0 }
