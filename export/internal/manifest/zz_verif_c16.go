//go:build verif

// Verification-only accessors for check C16 (/verif/harness/c16). They only READ unexported state of
// the L0 organizer; no Pebble logic is copied or changed.

package manifest

import (
	"strconv"
)

// VerifDumpL0State renders the complete internal state of the organizer's current l0Sublevels (the
// fields that TestAddL0FilesEquivalence compares with require.Equal: orderedIntervals, levelFiles,
// flushSplitUserKeys, plus the per-file state) as one deterministic string. The harness compares the
// dump of an incrementally built organizer with the dump of one built from scratch.
func (o *L0Organizer) VerifDumpL0State() string {
	s := o.l0Sublevels
	b := make([]byte, 0, 512)
	b = append(b, "fileBytes="...)
	b = strconv.AppendUint(b, s.fileBytes, 10)
	b = append(b, " split=["...)
	for _, k := range s.flushSplitUserKeys {
		b = append(b, k...)
		b = append(b, ',')
	}
	b = append(b, "]\n"...)
	for i := range s.orderedIntervals {
		iv := &s.orderedIntervals[i]
		b = append(b, "iv "...)
		b = strconv.AppendInt(b, int64(iv.index), 10)
		b = append(b, ' ')
		b = append(b, iv.startKey.key...)
		if iv.startKey.isInclusiveEndBound {
			b = append(b, '+')
		}
		b = append(b, " base="...)
		b = strconv.AppendBool(b, iv.isBaseCompacting)
		b = append(b, " rangeBase="...)
		b = strconv.AppendBool(b, iv.intervalRangeIsBaseCompacting)
		b = append(b, " fmin="...)
		b = strconv.AppendInt(b, int64(iv.filesMinIntervalIndex), 10)
		b = append(b, " fmax="...)
		b = strconv.AppendInt(b, int64(iv.filesMaxIntervalIndex), 10)
		b = append(b, " ccount="...)
		b = strconv.AppendInt(b, int64(iv.compactingFileCount), 10)
		b = append(b, " bytes="...)
		b = strconv.AppendUint(b, iv.estimatedBytes, 10)
		b = append(b, " files=["...)
		for _, f := range iv.files {
			b = strconv.AppendUint(b, uint64(f.TableNum), 10)
			b = append(b, ',')
		}
		b = append(b, "]\n"...)
	}
	for sl, files := range s.levelFiles {
		b = append(b, "sl "...)
		b = strconv.AppendInt(b, int64(sl), 10)
		b = append(b, ':')
		for _, f := range files {
			fs := s.state(f)
			b = append(b, ' ')
			b = strconv.AppendUint(b, uint64(f.TableNum), 10)
			b = append(b, '(')
			b = strconv.AppendInt(b, int64(fs.subLevel), 10)
			b = append(b, ';')
			b = strconv.AppendInt(b, int64(fs.minIntervalIndex), 10)
			b = append(b, '-')
			b = strconv.AppendInt(b, int64(fs.maxIntervalIndex), 10)
			b = append(b, ')')
		}
		b = append(b, '\n')
	}
	for sl := range s.Levels {
		b = append(b, "tree "...)
		b = strconv.AppendInt(b, int64(sl), 10)
		b = append(b, ':')
		for f := range s.Levels[sl].All() {
			b = append(b, ' ')
			b = strconv.AppendUint(b, uint64(f.TableNum), 10)
		}
		b = append(b, '\n')
	}
	return string(b)
}

// VerifCheckCompaction runs Pebble's own (otherwise unused) debugging helper checkCompaction on a
// picked candidate. The harness only records its verdict as a statistic next to the independent
// oracle; it does not decide violations.
func (o *L0Organizer) VerifCheckCompaction(c *L0CompactionFiles) error {
	return o.l0Sublevels.checkCompaction(c)
}

// VerifIsIntraL0 exposes the kind of a picked candidate.
func (c *L0CompactionFiles) VerifIsIntraL0() bool { return c.isIntraL0 }
