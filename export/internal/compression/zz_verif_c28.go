//go:build verif

// Exposes the unexported list of setting presets to the C28 harness (/verif/harness/c28) so that
// the check enumerates every preset the tree defines without keeping its own copy of the list.
package compression

// VerifC28Presets returns a copy of the presets registered through makePreset.
func VerifC28Presets() []Setting { return append([]Setting(nil), presets...) }
