//go:build verif

package vfs

import (
	"encoding/binary"
	"hash/fnv"
	"maps"
	"slices"
	"sort"
)

// This file is injected by /verif through a build overlay. It enumerates, instead of sampling, the
// crash images that MemFS.CrashClone can produce: the semantics below are a line-for-line mirror of
// memNode.CrashClone with the random choices replaced by an explicit "keep" set.

// VerifCrashUnit is one independent choice of the crash model: an unsynced directory entry
// (Block == -1) or an unsynced 4 KiB block of a file.
type VerifCrashUnit struct {
	Path  string
	Block int
	// Dep is the index of the directory-entry unit that must survive for this unit to matter
	// (-1: always reachable). Masks that keep a unit whose Dep is dropped are redundant.
	Dep int
}

const verifBlockSize = 4096

// VerifCrashUnits lists the choices in a deterministic order (depth first, names sorted).
func (y *MemFS) VerifCrashUnits() []VerifCrashUnit {
	y.cloneMu.Lock()
	defer y.cloneMu.Unlock()
	return y.verifUnitsLocked()
}

// VerifCrashEnum calls fn with the current units and a clone function while holding the clone lock,
// so that the units and every image are taken from the same instant.
func (y *MemFS) VerifCrashEnum(fn func(units []VerifCrashUnit, clone func(keep []bool) *MemFS)) {
	y.cloneMu.Lock()
	defer y.cloneMu.Unlock()
	units := y.verifUnitsLocked()
	fn(units, func(keep []bool) *MemFS { return y.verifCloneLocked(units, keep) })
}

func (y *MemFS) verifUnitsLocked() []VerifCrashUnit {
	var units []VerifCrashUnit
	var walk func(n *memNode, path string, dep int)
	walk = func(n *memNode, path string, dep int) {
		if !n.isDir {
			n.mu.Lock()
			data, synced := n.mu.data, n.mu.syncedData
			for i := 0; i < len(data); i += verifBlockSize {
				end := min(i+verifBlockSize, len(data))
				if end <= len(synced) && string(data[i:end]) == string(synced[i:end]) {
					continue
				}
				units = append(units, VerifCrashUnit{Path: path, Block: i / verifBlockSize, Dep: dep})
			}
			n.mu.Unlock()
			return
		}
		names := map[string]struct{}{}
		for k := range n.children {
			names[k] = struct{}{}
		}
		for k := range n.syncedChildren {
			names[k] = struct{}{}
		}
		sorted := slices.Collect(maps.Keys(names))
		sort.Strings(sorted)
		for _, name := range sorted {
			c, s := n.children[name], n.syncedChildren[name]
			p := path + "/" + name
			switch {
			case c != nil && c == s:
				walk(c, p, dep)
			case c != nil:
				units = append(units, VerifCrashUnit{Path: p, Block: -1, Dep: dep})
				u := len(units) - 1
				walk(c, p, u)
				if s != nil {
					// The old node is what survives when the new entry does not: no pruning.
					walk(s, p, -1)
				}
			default: // removed but the removal is not synced: the old node always survives
				walk(s, p, dep)
			}
		}
	}
	walk(y.root, "", -1)
	return units
}

// VerifCrashClone returns the crash image in which exactly the given units survive. keep[i]
// corresponds to VerifCrashUnits()[i] taken at the same moment.
func (y *MemFS) VerifCrashClone(units []VerifCrashUnit, keep []bool) *MemFS {
	y.cloneMu.Lock()
	defer y.cloneMu.Unlock()
	return y.verifCloneLocked(units, keep)
}

func (y *MemFS) verifCloneLocked(units []VerifCrashUnit, keep []bool) *MemFS {
	type key struct {
		path  string
		block int
	}
	kept := map[key]bool{}
	for i, u := range units {
		if keep[i] {
			kept[key{u.Path, u.Block}] = true
		}
	}
	var clone func(f *memNode, path string) *memNode
	clone = func(f *memNode, path string) *memNode {
		newNode := &memNode{isDir: f.isDir}
		if f.isDir {
			newNode.children = maps.Clone(f.syncedChildren)
			if newNode.children == nil {
				newNode.children = make(map[string]*memNode)
			}
			for name, child := range f.children {
				if kept[key{path + "/" + name, -1}] {
					newNode.children[name] = child
				}
			}
			for name, child := range newNode.children {
				newNode.children[name] = clone(child, path+"/"+name)
			}
			newNode.syncedChildren = maps.Clone(newNode.children)
		} else {
			f.mu.Lock()
			newNode.mu.data = slices.Clone(f.mu.syncedData)
			newNode.mu.modTime = f.mu.modTime
			for i := 0; i < len(f.mu.data); i += verifBlockSize {
				if kept[key{path, i / verifBlockSize}] {
					block := f.mu.data[i:min(i+verifBlockSize, len(f.mu.data))]
					if grow := i + len(block) - len(newNode.mu.data); grow > 0 {
						newNode.mu.data = append(newNode.mu.data, make([]byte, grow)...)
					}
					copy(newNode.mu.data[i:], block)
				}
			}
			f.mu.Unlock()
			newNode.mu.syncedData = slices.Clone(newNode.mu.data)
		}
		return newNode
	}
	newFS := &MemFS{crashable: true}
	newFS.windowsSemantics = y.windowsSemantics
	newFS.root = clone(y.root, "")
	return newFS
}

// VerifHash returns a content hash of the whole tree (names and file contents).
func (y *MemFS) VerifHash() uint64 {
	y.cloneMu.Lock()
	defer y.cloneMu.Unlock()
	h := fnv.New64a()
	var walk func(n *memNode, name string)
	var lenbuf [8]byte
	walk = func(n *memNode, name string) {
		h.Write([]byte(name))
		if !n.isDir {
			n.mu.Lock()
			binary.LittleEndian.PutUint64(lenbuf[:], uint64(len(n.mu.data)))
			h.Write([]byte{0})
			h.Write(lenbuf[:])
			h.Write(n.mu.data)
			n.mu.Unlock()
			return
		}
		h.Write([]byte{1})
		names := slices.Collect(maps.Keys(n.children))
		sort.Strings(names)
		for _, k := range names {
			walk(n.children[k], k)
		}
		h.Write([]byte{2})
	}
	walk(y.root, "")
	return h.Sum64()
}
