//go:build verif

package bloom

// VerifHash exposes the 32-bit hash the bloom filter writers feed into their hash collector.
func VerifHash(b []byte) uint32 { return hash(b) }
