//go:build verif

// Exposes the registry of built-in compression profiles to the C28 harness (/verif/harness/c28).
package block

import "sort"

// VerifC28Profiles returns every profile registered through registerCompressionProfile, by name.
func VerifC28Profiles() []*CompressionProfile {
	var out []*CompressionProfile
	for _, p := range compressionProfileMap {
		out = append(out, p)
	}
	sort.Slice(out, func(i, j int) bool { return out[i].Name < out[j].Name })
	return out
}
