//go:build verif

package record

// VerifDisableBitFlipCheck sets the package's own test hook disableBitFlipCheckForTesting. With the
// hook set, a checksum mismatch returns the plain ErrInvalidChunk without first running the bit-flip
// diagnostic (which recomputes the checksum of the chunk once per bit: about half a second for a
// 32 KiB chunk). The diagnostic only decorates the error; it does not decide which error is returned.
// Must not be called while a Reader is in use on another goroutine.
func VerifDisableBitFlipCheck(disable bool) { disableBitFlipCheckForTesting = disable }
