//go:build verif

package record

import "time"

// VerifTimer is the harness-side timer handed to the LogWriter for its min-sync-interval.
type VerifTimer interface {
	Reset(time.Duration) bool
	Stop() bool
}

// VerifSetAfterFunc replaces the LogWriter's timer factory, so that "the min-sync-interval timer
// fires now" becomes a schedulable event of the harness instead of wall-clock time. Must be called
// before the first record is written.
func (w *LogWriter) VerifSetAfterFunc(f func(d time.Duration, fn func()) VerifTimer) {
	w.afterFunc = func(d time.Duration, fn func()) syncTimer { return f(d, fn) }
}
