module verif/instr

go 1.25.3
