// instr rewrites Go sources so that every synchronisation operation goes through the /verif
// scheduler shims:
//
//	import "sync"          -> import sync ".../internal/verif/vsync"
//	import "sync/atomic"   -> import atomic ".../internal/verif/vatomic"
//	import "math/rand/v2"  -> import rand ".../internal/verif/vrand"
//	go f(x)                -> vsched.Go(func() { f(x) })
//	runtime.Gosched()      -> vsched.Yield()
//
// Local import names are preserved, so no other line changes. It reads a spec
// {"repo","overlay","out","modpath"} and writes out/overlay.json.
package main

import (
	"bytes"
	"crypto/sha1"
	"encoding/json"
	"fmt"
	"go/ast"
	"go/parser"
	"go/printer"
	"go/token"
	"os"
	"path/filepath"
	"sort"
	"strconv"
	"strings"
	"sync"
)

type spec struct {
	Repo    string            `json:"repo"`
	Overlay map[string]string `json:"overlay"`
	Out     string            `json:"out"`
	ModPath string            `json:"modpath"`
}

var skipDirs = map[string]bool{
	"cmd": true, "internal/devtools": true, "bench": true, "internal/pacertoy": true, "internal/mkbench": true,
	"metamorphic": true, "internal/metamorphic": true, "internal/lint": true, "tool": true, "replay": true,
	".git": true, "docs": true, "scripts": true,
}

// packages that must stay on the real primitives
var noInstr = []string{"internal/verif/vsched", "internal/verif/vsync", "internal/verif/vatomic", "internal/verif/vrand", "internal/verif/vlib", "internal/verif/d1x"}

func main() {
	var sp spec
	b, err := os.ReadFile(os.Args[1])
	if err != nil {
		panic(err)
	}
	if err := json.Unmarshal(b, &sp); err != nil {
		panic(err)
	}
	type job struct{ dst, src string }
	var jobs []job
	// files of the repository
	filepath.Walk(sp.Repo, func(p string, info os.FileInfo, err error) error {
		if err != nil {
			return nil
		}
		rel, _ := filepath.Rel(sp.Repo, p)
		if info.IsDir() {
			if skipDirs[rel] || info.Name() == "testdata" {
				return filepath.SkipDir
			}
			return nil
		}
		if !strings.HasSuffix(p, ".go") || strings.HasSuffix(p, "_test.go") {
			return nil
		}
		if _, ok := sp.Overlay[p]; ok {
			return nil // replaced by the overlay; handled below
		}
		jobs = append(jobs, job{p, p})
		return nil
	})
	for dst, src := range sp.Overlay {
		jobs = append(jobs, job{dst, src})
	}
	sort.Slice(jobs, func(i, j int) bool { return jobs[i].dst < jobs[j].dst })
	replace := map[string]string{}
	var mu sync.Mutex
	var wg sync.WaitGroup
	sem := make(chan struct{}, 16)
	var firstErr error
	for _, j := range jobs {
		j := j
		rel, _ := filepath.Rel(sp.Repo, j.dst)
		skip := false
		for _, n := range noInstr {
			if strings.HasPrefix(rel, n+"/") {
				skip = true
			}
		}
		if skip || !strings.HasSuffix(j.src, ".go") {
			if j.src != j.dst {
				mu.Lock()
				replace[j.dst] = j.src
				mu.Unlock()
			}
			continue
		}
		wg.Add(1)
		sem <- struct{}{}
		go func() {
			defer wg.Done()
			defer func() { <-sem }()
			out, changed, err := rewrite(j.src, sp.ModPath)
			mu.Lock()
			defer mu.Unlock()
			if err != nil {
				if firstErr == nil {
					firstErr = fmt.Errorf("%s: %v", j.src, err)
				}
				return
			}
			if !changed {
				if j.src != j.dst {
					replace[j.dst] = j.src
				}
				return
			}
			h := sha1.Sum([]byte(j.dst))
			op := filepath.Join(sp.Out, "src", fmt.Sprintf("%x_%s", h[:6], filepath.Base(j.dst)))
			os.MkdirAll(filepath.Dir(op), 0o755)
			old, _ := os.ReadFile(op)
			if !bytes.Equal(old, out) {
				if err := os.WriteFile(op, out, 0o644); err != nil && firstErr == nil {
					firstErr = err
				}
			}
			replace[j.dst] = op
		}()
	}
	wg.Wait()
	if firstErr != nil {
		fmt.Fprintln(os.Stderr, firstErr)
		os.Exit(1)
	}
	ob, _ := json.MarshalIndent(map[string]any{"Replace": replace}, "", " ")
	if err := os.WriteFile(filepath.Join(sp.Out, "overlay.json"), ob, 0o644); err != nil {
		panic(err)
	}
}

func rewrite(path, modpath string) ([]byte, bool, error) {
	src, err := os.ReadFile(path)
	if err != nil {
		return nil, false, err
	}
	if !bytes.Contains(src, []byte(`"sync"`)) && !bytes.Contains(src, []byte(`"sync/atomic"`)) &&
		!bytes.Contains(src, []byte(`"math/rand/v2"`)) && !bytes.Contains(src, []byte("go ")) && !bytes.Contains(src, []byte("Gosched")) {
		return nil, false, nil
	}
	fset := token.NewFileSet()
	f, err := parser.ParseFile(fset, path, src, parser.ParseComments)
	if err != nil {
		return nil, false, err
	}
	changed := false
	shim := map[string][2]string{
		"sync":         {"sync", modpath + "/internal/verif/vsync"},
		"sync/atomic":  {"atomic", modpath + "/internal/verif/vatomic"},
		"math/rand/v2": {"rand", modpath + "/internal/verif/vrand"},
	}
	runtimeName := ""
	for _, im := range f.Imports {
		p, _ := strconv.Unquote(im.Path.Value)
		if p == "runtime" {
			runtimeName = "runtime"
			if im.Name != nil {
				runtimeName = im.Name.Name
			}
		}
		if s, ok := shim[p]; ok {
			if im.Name == nil {
				im.Name = ast.NewIdent(s[0])
			}
			if im.Name.Name == "_" {
				continue
			}
			im.Path.Value = strconv.Quote(s[1])
			changed = true
		}
	}
	needSched := false
	var visit func(n ast.Node) bool
	rewriteStmts := func(list []ast.Stmt) {
		for i, st := range list {
			if g, ok := st.(*ast.GoStmt); ok {
				call := &ast.CallExpr{
					Fun: &ast.SelectorExpr{X: ast.NewIdent("vsched__"), Sel: ast.NewIdent("Go")},
					Args: []ast.Expr{&ast.FuncLit{
						Type: &ast.FuncType{Params: &ast.FieldList{}},
						Body: &ast.BlockStmt{List: []ast.Stmt{&ast.ExprStmt{X: g.Call}}},
					}},
				}
				list[i] = &ast.ExprStmt{X: call}
				needSched = true
				changed = true
			}
		}
	}
	visit = func(n ast.Node) bool {
		switch x := n.(type) {
		case *ast.BlockStmt:
			rewriteStmts(x.List)
		case *ast.CaseClause:
			rewriteStmts(x.Body)
		case *ast.CommClause:
			rewriteStmts(x.Body)
		case *ast.LabeledStmt:
			if g, ok := x.Stmt.(*ast.GoStmt); ok {
				l := []ast.Stmt{g}
				rewriteStmts(l)
				x.Stmt = l[0]
			}
		case *ast.IfStmt:
			// "else go f()" does not occur; nothing to do
		case *ast.CallExpr:
			if sel, ok := x.Fun.(*ast.SelectorExpr); ok && runtimeName != "" {
				if id, ok := sel.X.(*ast.Ident); ok && id.Name == runtimeName && sel.Sel.Name == "Gosched" {
					x.Fun = &ast.SelectorExpr{X: ast.NewIdent("vsched__"), Sel: ast.NewIdent("Yield")}
					needSched = true
					changed = true
				}
			}
		}
		return true
	}
	ast.Inspect(f, visit)
	if !changed {
		return nil, false, nil
	}
	if needSched {
		// add the import by editing the first import decl (keeps comments/cgo preambles intact)
		spec := &ast.ImportSpec{Name: ast.NewIdent("vsched__"), Path: &ast.BasicLit{Kind: token.STRING, Value: strconv.Quote(modpath + "/internal/verif/vsched")}}
		added := false
		for _, d := range f.Decls {
			if gd, ok := d.(*ast.GenDecl); ok && gd.Tok == token.IMPORT {
				// skip the cgo import "C" declaration
				isC := false
				for _, s := range gd.Specs {
					if s.(*ast.ImportSpec).Path.Value == `"C"` {
						isC = true
					}
				}
				if isC {
					continue
				}
				if !gd.Lparen.IsValid() {
					gd.Lparen = gd.Pos()
					gd.Rparen = gd.End()
				}
				gd.Specs = append(gd.Specs, spec)
				added = true
				break
			}
		}
		if !added {
			gd := &ast.GenDecl{Tok: token.IMPORT, Specs: []ast.Spec{spec}}
			f.Decls = append([]ast.Decl{gd}, f.Decls...)
		}
	}
	// runtime may have become unused after replacing Gosched; keep it referenced
	var buf bytes.Buffer
	if err := (&printer.Config{Mode: printer.UseSpaces | printer.TabIndent, Tabwidth: 8}).Fprint(&buf, fset, f); err != nil {
		return nil, false, err
	}
	out := buf.Bytes()
	if runtimeName != "" && needSched {
		out = append(out, []byte("\nvar _ = "+runtimeName+".GOMAXPROCS\n")...)
	}
	return out, true, nil
}
