// Package crashx is engine B: it takes a crash image before every mutating file-system call of a
// run, for every survival pattern of the unsynced data that vfs.MemFS's own crash model allows
// (enumerated, not sampled), and provides the prefix / subsequence oracles that judge what a
// recovery of such an image may contain.
package crashx

import (
	"fmt"
	"sort"
	"strings"
	"sync"

	"github.com/cockroachdb/pebble/internal/verif/hx"
	"github.com/cockroachdb/pebble/vfs"
	"github.com/cockroachdb/pebble/vfs/errorfs"
)

// Point is what the harness knew at a crash point: ops are numbered 1..n; Hi is the last op that
// had started, D the ops whose contract made them durable and that had returned.
type Point struct {
	Hi int
	D  []int
}

func (p Point) String() string { return fmt.Sprintf("hi=%d D=%v", p.Hi, p.D) }

func (p Point) MaxD() int {
	m := 0
	for _, d := range p.D {
		if d > m {
			m = d
		}
	}
	return m
}

// Tracker is bumped by the harness thread and read by the injector callback (any goroutine). A
// racing background goroutine can only see a smaller D, never a stricter requirement.
type Tracker struct {
	mu  sync.Mutex
	hi  int
	dur map[int]bool
}

func NewTracker() *Tracker { return &Tracker{dur: map[int]bool{}} }

func (t *Tracker) Start(i int) {
	t.mu.Lock()
	t.hi = i
	t.mu.Unlock()
}

// AckOne records that op i is durable; AckUpTo that every op <= i is.
func (t *Tracker) AckOne(i int) {
	t.mu.Lock()
	t.dur[i] = true
	t.mu.Unlock()
}

func (t *Tracker) AckUpTo(i int) {
	t.mu.Lock()
	for j := 1; j <= i; j++ {
		t.dur[j] = true
	}
	t.mu.Unlock()
}

func (t *Tracker) Snapshot() Point {
	t.mu.Lock()
	defer t.mu.Unlock()
	p := Point{Hi: t.hi}
	for d := range t.dur {
		p.D = append(p.D, d)
	}
	sort.Ints(p.D)
	return p
}

// Image is one distinct crash image.
type Image struct {
	FS     *vfs.MemFS
	Hash   uint64
	Points []Point // distinct harness states under which this image can arise
	At     string  // first FS call before which it was taken
	Units  int     // number of unsynced units at that moment
	Kept   int     // how many of them survive in this image
	Seq    int     // index of the crash point
	Mask   []bool
	UnitNames []string
}

// Collector gathers images.
type Collector struct {
	Mem      *vfs.MemFS
	T        *Tracker
	MaxUnits int // all 2^n subsets up to this n; beyond: subsets within 2 flips of none/all
	// Strict takes only the image in which nothing unsynced survives (used for nested levels).
	Strict bool

	mu       sync.Mutex
	enabled  bool
	images   map[uint64]*Image
	order    []uint64
	skip     map[string]bool
	Calls    int // FS calls intercepted (all kinds)
	CrashPts int // crash points taken (mutating calls while enabled)
	Capped   int // crash points where the subset enumeration was restricted
	MaxN     int
}

func NewCollector(mem *vfs.MemFS, t *Tracker) *Collector {
	return &Collector{Mem: mem, T: t, MaxUnits: 10, images: map[uint64]*Image{}, skip: map[string]bool{}}
}

func (c *Collector) Enable(on bool) {
	c.mu.Lock()
	c.enabled = on
	c.mu.Unlock()
}

// Injector returns the errorfs injector that takes the crash images; it never injects an error.
func (c *Collector) Injector() errorfs.Injector {
	return errorfs.InjectorFunc(func(op errorfs.Op) error {
		c.mu.Lock()
		c.Calls++
		en := c.enabled
		c.mu.Unlock()
		if en && op.Kind.IsWrite() {
			c.Capture(fmt.Sprintf("%v %s", op.Kind, op.Path))
		}
		return nil
	})
}

// Capture takes the crash images of this instant.
func (c *Collector) Capture(at string) {
	c.mu.Lock()
	defer c.mu.Unlock()
	c.CrashPts++
	seq := c.CrashPts
	c.Mem.VerifCrashEnum(func(units []vfs.VerifCrashUnit, clone func([]bool) *vfs.MemFS) {
		// The harness state is read while the clone lock excludes every FS mutation: an op whose
		// effects are in the image has already bumped Hi, and an op counted in D has already
		// completed all its FS work. (Reading it before taking the lock is unsound: the FS may
		// move on while this goroutine waits for the lock.)
		pt := c.T.Snapshot()
		n := len(units)
		if n > c.MaxN {
			c.MaxN = n
		}
		keep := make([]bool, n)
		add := func() {
			// prune masks that keep a unit whose enabling directory entry is dropped
			kept := 0
			for i, u := range units {
				if keep[i] {
					kept++
					if u.Dep >= 0 && !keep[u.Dep] {
						return
					}
				}
			}
			fs := clone(keep)
			h := fs.VerifHash()
			im := c.images[h]
			if im == nil {
				im = &Image{FS: fs, Hash: h, At: at, Units: n, Kept: kept, Seq: seq, Mask: append([]bool(nil), keep...)}
				for _, u := range units {
					im.UnitNames = append(im.UnitNames, fmt.Sprintf("%s#%d", u.Path, u.Block))
				}
				c.images[h] = im
				c.order = append(c.order, h)
			}
			ps := pt.String()
			for _, q := range im.Points {
				if q.String() == ps {
					return
				}
			}
			im.Points = append(im.Points, pt)
		}
		if c.Strict {
			add()
			return
		}
		add() // nothing survives
		if n <= c.MaxUnits {
			for m := 1; m < 1<<uint(n); m++ {
				for i := 0; i < n; i++ {
					keep[i] = m&(1<<uint(i)) != 0
				}
				add()
			}
			return
		}
		c.Capped++
		// within 2 flips of "nothing" and of "everything"
		for _, base := range []bool{false, true} {
			for i := -1; i < n; i++ {
				for j := i; j < n; j++ {
					for k := range keep {
						keep[k] = base
					}
					if i >= 0 {
						keep[i] = !base
					}
					if j >= 0 {
						keep[j] = !base
					}
					add()
				}
			}
		}
	})
}

// Images returns the distinct images in the order they were first seen.
func (c *Collector) Images() []*Image {
	c.mu.Lock()
	defer c.mu.Unlock()
	out := make([]*Image, len(c.order))
	for i, h := range c.order {
		out[i] = c.images[h]
	}
	return out
}

// Oracle judges recovered states of one history.
type Oracle struct {
	Hist   []hx.Op // ops 1..n are Hist[0..n-1]
	Bounds []string
	prefix []string // model state after each prefix 0..n
}

func NewOracle(hist []hx.Op, bounds []string) *Oracle {
	o := &Oracle{Hist: hist, Bounds: bounds}
	m := hx.NewModel(bounds...)
	o.prefix = append(o.prefix, m.String())
	for i, op := range hist {
		applyModel(m, i+1, op)
		o.prefix = append(o.prefix, m.String())
	}
	return o
}

func applyModel(m *hx.Model, idx int, op hx.Op) {
	switch op.K {
	case "reopen", "close", "snap", "ckpt":
		return
	}
	m.Apply(op, fmt.Sprintf("v%d", idx))
}

// PrefixState returns the model state after prefix p.
func (o *Oracle) PrefixState(p int) string { return o.prefix[p] }

// PrefixOK reports whether state equals the model after some prefix p with max(D) <= p <= hi.
func (o *Oracle) PrefixOK(state string, pt Point) (int, bool) {
	for p := pt.MaxD(); p <= pt.Hi && p < len(o.prefix); p++ {
		if o.prefix[p] == state {
			return p, true
		}
	}
	return -1, false
}

// AnyPrefix reports whether the state equals the model after any prefix p <= hi.
func (o *Oracle) AnyPrefix(state string, hi int) (int, bool) {
	for p := 0; p <= hi && p < len(o.prefix); p++ {
		if o.prefix[p] == state {
			return p, true
		}
	}
	return -1, false
}

// Subseqs enumerates the order-preserving subsequences S of 1..hi that contain D and whose model
// equals state.
func (o *Oracle) Subseqs(state string, pt Point, f func(s []int) bool) {
	inD := map[int]bool{}
	for _, d := range pt.D {
		inD[d] = true
	}
	var free []int
	for i := 1; i <= pt.Hi && i <= len(o.Hist); i++ {
		if !inD[i] {
			free = append(free, i)
		}
	}
	// larger subsequences first (closest to the full prefix)
	for mask := (1 << uint(len(free))) - 1; mask >= 0; mask-- {
		var s []int
		fi := 0
		for i := 1; i <= pt.Hi && i <= len(o.Hist); i++ {
			if inD[i] {
				s = append(s, i)
				continue
			}
			if mask&(1<<uint(fi)) != 0 {
				s = append(s, i)
			}
			fi++
		}
		m := hx.NewModel(o.Bounds...)
		for _, i := range s {
			applyModel(m, i, o.Hist[i-1])
		}
		if m.String() == state {
			if !f(s) {
				return
			}
		}
	}
}

// SubseqOK is the durability oracle: some subsequence containing D explains the state.
func (o *Oracle) SubseqOK(state string, pt Point) ([]int, bool) {
	var res []int
	ok := false
	o.Subseqs(state, pt, func(s []int) bool { res, ok = s, true; return false })
	return res, ok
}

func opSpan(op hx.Op) (lo, hi string, pts []string) {
	switch op.K {
	case "set", "del", "delsized", "sdel", "merge":
		return "", "", []string{op.Key}
	case "delrange", "rkset", "rkunset", "rkdel", "excise":
		return op.Key, op.End, nil
	case "batch", "ingest":
		for _, s := range op.Sub {
			l, h, p := opSpan(s)
			pts = append(pts, p...)
			if l != "" {
				pts = append(pts, l) // approximate a range by its endpoints plus the span below
				if lo == "" || hx.Cmp(l, lo) < 0 {
					lo = l
				}
				if hi == "" || hx.Cmp(h, hi) > 0 {
					hi = h
				}
			}
		}
		return lo, hi, pts
	case "ingestexcise":
		l, h, p := opSpan(hx.Op{K: "ingest", Sub: op.Sub})
		pts = p
		lo, hi = op.Key, op.End
		if l != "" {
			if hx.Cmp(l, lo) < 0 {
				lo = l
			}
			if hx.Cmp(h, hi) > 0 {
				hi = h
			}
		}
		return lo, hi, pts
	}
	return "", "", nil
}

// Disjoint reports whether two ops touch disjoint parts of the key space.
func Disjoint(a, b hx.Op) bool {
	al, ah, ap := opSpan(a)
	bl, bh, bp := opSpan(b)
	in := func(k, lo, hi string) bool { return lo != "" && hx.Cmp(k, lo) >= 0 && hx.Cmp(k, hi) < 0 }
	for _, k := range ap {
		if in(k, bl, bh) {
			return false
		}
		for _, q := range bp {
			if hx.Cmp(k, q) == 0 {
				return false
			}
		}
	}
	for _, k := range bp {
		if in(k, al, ah) {
			return false
		}
	}
	if al != "" && bl != "" && hx.Cmp(al, bh) < 0 && hx.Cmp(bl, ah) < 0 {
		return false
	}
	return true
}

// IngestHoleExplains is the structural matcher of the known finding "a non-overlapping
// ingest/excise is durable while earlier unsynced writes are not": the state is explained by a
// subsequence S containing D whose only holes are non-durable ops that precede an ingest/excise in
// S and are key-disjoint from it.
func (o *Oracle) IngestHoleExplains(state string, pt Point) ([]int, bool) {
	var res []int
	ok := false
	o.Subseqs(state, pt, func(s []int) bool {
		in := map[int]bool{}
		maxS := 0
		for _, i := range s {
			in[i] = true
			if i > maxS {
				maxS = i
			}
		}
		holes := 0
		for h := 1; h < maxS; h++ {
			if in[h] {
				continue
			}
			holes++
			explained := false
			for j := h + 1; j <= maxS; j++ {
				if !in[j] {
					continue
				}
				switch o.Hist[j-1].K {
				case "ingest", "ingestexcise", "excise":
					if Disjoint(o.Hist[h-1], o.Hist[j-1]) {
						explained = true
					}
				}
			}
			if !explained {
				return true // try another subsequence
			}
		}
		if holes == 0 {
			return true
		}
		res, ok = s, true
		return false
	})
	return res, ok
}

// StateString renders an observed state in the same canonical form as Model.String.
func StateString(pts []hx.KV, spans []hx.Span) string {
	var b strings.Builder
	for _, p := range pts {
		fmt.Fprintf(&b, "%s=%s ", p.K, p.V)
	}
	for _, s := range spans {
		fmt.Fprintf(&b, "[%s,%s){", s.Start, s.End)
		for _, k := range s.Keys {
			fmt.Fprintf(&b, "%s=%s,", k.K, k.V)
		}
		b.WriteString("} ")
	}
	return b.String()
}
