package vlib

// SeqCount returns the number of sequences of length 1..maxDepth over k symbols (minDepth..maxDepth).
func SeqCount(k, minDepth, maxDepth int) int {
	n, p := 0, 1
	for d := 1; d <= maxDepth; d++ {
		p *= k
		if d >= minDepth {
			n += p
		}
	}
	return n
}

// SeqDecode maps an index in [0,SeqCount) to its sequence: shorter sequences first, then
// lexicographic with symbol 0 first (alphabets are ordered simplest-first).
func SeqDecode(i, k, minDepth, maxDepth int) []int {
	p := 1
	for d := 1; d <= maxDepth; d++ {
		p *= k
		if d < minDepth {
			continue
		}
		if i < p {
			s := make([]int, d)
			for j := d - 1; j >= 0; j-- {
				s[j] = i % k
				i /= k
			}
			return s
		}
		i -= p
	}
	return nil
}

// Subsets calls f with every subset of {0..n-1} as a bitmask.
func Subsets(n int, f func(mask uint32)) {
	for m := uint32(0); m < 1<<uint(n); m++ {
		f(m)
	}
}

// Product enumerates the cartesian product of the given radices; f receives the digit vector
// (reused between calls).
func Product(radices []int, f func(d []int)) {
	d := make([]int, len(radices))
	for _, r := range radices {
		if r == 0 {
			return
		}
	}
	for {
		f(d)
		i := len(d) - 1
		for i >= 0 {
			d[i]++
			if d[i] < radices[i] {
				break
			}
			d[i] = 0
			i--
		}
		if i < 0 {
			return
		}
	}
}
