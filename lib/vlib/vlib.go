// Package vlib is the small runtime shared by every harness: it reads the
// tier/shard/deadline from the environment, counts what was explored, keeps
// distinct-hash sets, samples and violations, and writes one result file that
// the driver (/verif/vx) merges into evidence/<id>.json.
package vlib

import (
	"encoding/binary"
	"encoding/json"
	"fmt"
	"hash/fnv"
	"os"
	"path/filepath"
	"runtime"
	"runtime/debug"
	"sort"
	"strconv"
	"strings"
	"sync"
	"sync/atomic"
	"syscall"
	"testing"
	"time"
)

// Violation is one property violation found by a harness.
type Violation struct {
	Property string          `json:"property"`
	Class    string          `json:"class"` // stable structural class, matched against known_findings.json
	Desc     string          `json:"desc"`
	Replay   string          `json:"replay"` // path of the replay artefact
	Case     json.RawMessage `json:"case,omitempty"`
}

// Ctx collects the coverage of one harness run.
type Ctx struct {
	T        *testing.T
	Prop     string
	tier     string
	shard    int
	nshards  int
	out      string
	replay   string
	start    time.Time
	deadline time.Time
	seed     int64

	evals atomic.Int64
	trans atomic.Int64

	mu         sync.Mutex
	states     map[uint64]struct{}
	nontrivial map[uint64]struct{}
	samples    []any
	maxSamples int
	outcomes   map[string]int64
	violations []Violation
	vioClasses map[string]int
	incomplete []string
	notes      map[string]any
	expired    atomic.Bool
	final      atomic.Bool // set before the last write; a result file without it is a partial snapshot
}

// Dispatch is the name a harness that serves several checks selects its plans or scenarios by: the
// id of the check being run (a sub-check such as "C14-bg" keeps its own id when it runs as part of
// another property's check, while Prop is then the property its violations are attributed to).
func (c *Ctx) Dispatch() string {
	if id := os.Getenv("VERIF_CHECK_ID"); id != "" {
		return id
	}
	return c.Prop
}

// Main runs a harness body under a Ctx and writes the result file.
func Main(t *testing.T, prop string, run func(c *Ctx)) {
	c := &Ctx{T: t, Prop: prop, tier: os.Getenv("VERIF_TIER"), out: os.Getenv("VERIF_OUT"),
		replay: os.Getenv("VERIF_REPLAY"), start: realNow(), nshards: 1,
		states: map[uint64]struct{}{}, nontrivial: map[uint64]struct{}{}, outcomes: map[string]int64{},
		vioClasses: map[string]int{}, notes: map[string]any{}, maxSamples: 6}
	if c.tier == "" {
		c.tier = "quick"
	}
	if p := os.Getenv("VERIF_PROP"); p != "" {
		c.Prop = p
	}
	if s := os.Getenv("VERIF_SHARD"); s != "" {
		fmt.Sscanf(s, "%d/%d", &c.shard, &c.nshards)
	}
	if s := os.Getenv("VERIF_SEED"); s != "" {
		c.seed, _ = strconv.ParseInt(s, 10, 64)
	}
	budget := 3600.0
	if s := os.Getenv("VERIF_BUDGET_S"); s != "" {
		budget, _ = strconv.ParseFloat(s, 64)
	}
	c.deadline = c.start.Add(time.Duration(budget * float64(time.Second)))
	// Results are also written periodically, so that a run killed from outside (hard time limit, a
	// hang in an uninterruptible place) still leaves what it found so far.
	stopTick := make(chan struct{})
	if c.out != "" {
		go func() {
			for {
				select {
				case <-stopTick:
					return
				case <-time.After(10 * time.Second):
					c.write()
				}
			}
		}()
	}
	defer close(stopTick)
	func() {
		defer func() {
			if r := recover(); r != nil {
				// A panic on the harness goroutine that the harness did not classify itself is a
				// harness failure, not a verdict: report it loudly.
				c.Incomplete(fmt.Sprintf("harness panic: %v\n%s", r, debug.Stack()))
				c.notes["harness_panic"] = fmt.Sprint(r)
			}
		}()
		run(c)
	}()
	c.final.Store(true)
	c.write()
}

func (c *Ctx) Tier() string     { return c.tier }
func (c *Ctx) Thorough() bool   { return c.tier == "thorough" }
func (c *Ctx) Shard() int       { return c.shard }
func (c *Ctx) NShards() int     { return c.nshards }
func (c *Ctx) Seed() int64      { return c.seed }
func (c *Ctx) ReplayPath() string { return c.replay }

// Mine reports whether work item i belongs to this shard.
func (c *Ctx) Mine(i int) bool { return c.nshards <= 1 || i%c.nshards == c.shard }

// Workers is the number of worker goroutines a harness should use in-process.
func (c *Ctx) Workers() int {
	if s := os.Getenv("VERIF_WORKERS"); s != "" {
		if n, err := strconv.Atoi(s); err == nil && n > 0 {
			return n
		}
	}
	n := runtime.GOMAXPROCS(0)
	if n > 16 {
		n = 16
	}
	return n
}

// Expired reports whether the wall-clock budget of this run is used up. A harness that stops
// because of it must call Incomplete with what was covered.
func (c *Ctx) Expired() bool {
	if c.expired.Load() {
		return true
	}
	if realNow().After(c.deadline) {
		c.expired.Store(true)
		return true
	}
	return false
}

func (c *Ctx) Eval(n int)  { c.evals.Add(int64(n)) }
func (c *Ctx) Trans(n int) { c.trans.Add(int64(n)) }
func (c *Ctx) Evals() int64 { return c.evals.Load() }

func (c *Ctx) State(h uint64) {
	c.mu.Lock()
	c.states[h] = struct{}{}
	c.mu.Unlock()
}

func (c *Ctx) Nontrivial(h uint64) {
	c.mu.Lock()
	c.nontrivial[h] = struct{}{}
	c.mu.Unlock()
}

func (c *Ctx) Outcome(s string) {
	c.mu.Lock()
	c.outcomes[s]++
	c.mu.Unlock()
}

func (c *Ctx) OutcomeN(s string, n int64) {
	c.mu.Lock()
	c.outcomes[s] += n
	c.mu.Unlock()
}

func (c *Ctx) Sample(v any) {
	c.mu.Lock()
	if len(c.samples) < c.maxSamples {
		c.samples = append(c.samples, v)
	}
	c.mu.Unlock()
}

func (c *Ctx) Note(k string, v any) {
	c.mu.Lock()
	c.notes[k] = v
	c.mu.Unlock()
}

// NoteAdd adds n to an integer note.
func (c *Ctx) NoteAdd(k string, n int64) {
	c.mu.Lock()
	cur, _ := c.notes[k].(int64)
	c.notes[k] = cur + n
	c.mu.Unlock()
}

func (c *Ctx) Incomplete(reason string) {
	c.mu.Lock()
	c.incomplete = append(c.incomplete, reason)
	c.mu.Unlock()
}

// NViolations returns the number of violations recorded so far.
func (c *Ctx) NViolations() int {
	c.mu.Lock()
	defer c.mu.Unlock()
	return len(c.violations)
}

// Violation records a violation; at most 5 per class keep their replay artefact (the first in
// enumeration order is the shortest, since alphabets are ordered simplest-first).
func (c *Ctx) Violation(class, desc string, cas any) {
	c.ViolationFor(c.Prop, class, desc, cas)
}

func (c *Ctx) ViolationFor(prop, class, desc string, cas any) {
	raw, _ := json.Marshal(cas)
	c.mu.Lock()
	defer c.mu.Unlock()
	key := prop + "/" + class
	c.vioClasses[key]++
	if c.vioClasses[key] > 5 {
		return
	}
	dir := os.Getenv("VERIF_REPLAYS")
	if dir == "" {
		dir = "/verif/replays"
	}
	os.MkdirAll(dir, 0o755)
	h := fnv.New64a()
	h.Write(raw)
	h.Write([]byte(class))
	p := filepath.Join(dir, fmt.Sprintf("%s-%s-%016x.json", prop, sanitize(class), h.Sum64()))
	body, _ := json.MarshalIndent(map[string]any{"property": prop, "class": class, "desc": desc, "harness": c.Prop, "check": os.Getenv("VERIF_CHECK_ID"), "case": json.RawMessage(raw)}, "", " ")
	os.WriteFile(p, body, 0o644)
	c.violations = append(c.violations, Violation{Property: prop, Class: class, Desc: desc, Replay: p, Case: raw})
}

func sanitize(s string) string {
	var b strings.Builder
	for _, r := range s {
		if r >= 'a' && r <= 'z' || r >= 'A' && r <= 'Z' || r >= '0' && r <= '9' || r == '_' || r == '.' {
			b.WriteRune(r)
		} else {
			b.WriteByte('_')
		}
		if b.Len() > 40 {
			break
		}
	}
	return b.String()
}

// LoadReplay decodes the "case" member of a replay artefact.
func (c *Ctx) LoadReplay(v any) error {
	b, err := os.ReadFile(c.replay)
	if err != nil {
		return err
	}
	var w struct {
		Case json.RawMessage `json:"case"`
	}
	if err := json.Unmarshal(b, &w); err != nil {
		return err
	}
	return json.Unmarshal(w.Case, v)
}

// Each runs f(i) for i in [0,n) on the worker pool, skipping items of other shards and stopping
// when the budget expires. It returns the number of items completed and whether all were.
// HangLimit is how long a single work item may run before it is suspected to hang. Items normally
// take milliseconds; the limit is generous so that a loaded machine cannot trip it. A suspected
// hang is re-executed once on a fresh goroutine; only if that does not finish within the limit
// either it is reported as a violation of class "hang" (an API call that never returns), otherwise
// the run is marked incomplete.
var HangLimit = 240 * time.Second

// ItemCase is the replay artefact of a work item identified only by its index in a named plan
// (used for panics and hangs, where the harness did not get to build its own case).
type ItemCase struct {
	Plan  string `json:"plan"`
	Index int    `json:"index"`
}

// Each runs f(i) for i in [0,n) on the worker pool, skipping items of other shards and stopping
// when the budget expires. It returns the number of items completed and whether all were. A panic
// on the worker goroutine is recorded as a violation of class "panic" (with the item); an item that
// does not return is handled as described at HangLimit.
func (c *Ctx) Each(n int, f func(i int)) (done int64, complete bool) {
	return c.EachNamed("", n, f)
}

func (c *Ctx) EachNamed(plan string, n int, f func(i int)) (done int64, complete bool) {
	var next atomic.Int64
	var cnt atomic.Int64
	var stopped atomic.Bool
	nw := c.Workers()
	type wstate struct {
		item  atomic.Int64 // current item + 1, 0 = idle
		since atomic.Int64 // unix nanos
		fin   atomic.Bool
	}
	ws := make([]*wstate, nw)
	safe := func(i int) {
		defer func() {
			if r := recover(); r != nil {
				c.Violation("panic", fmt.Sprintf("plan %q item %d: panic: %v\n%s", plan, i, r, debug.Stack()), ItemCase{plan, i})
			}
		}()
		f(i)
	}
	for w := 0; w < nw; w++ {
		st := &wstate{}
		ws[w] = st
		go func() {
			defer st.fin.Store(true)
			for {
				i := int(next.Add(1) - 1)
				if i >= n {
					return
				}
				if !c.Mine(i) {
					continue
				}
				if c.Expired() {
					stopped.Store(true)
					return
				}
				st.since.Store(realNow().UnixNano())
				st.item.Store(int64(i) + 1)
				safe(i)
				st.item.Store(0)
				cnt.Add(1)
			}
		}()
	}
	// monitor: wait for the workers; abandon workers stuck in one item beyond HangLimit
	hung := map[int]bool{}
	for {
		allDone := true
		for _, st := range ws {
			if st.fin.Load() {
				continue
			}
			it := st.item.Load()
			if it != 0 && realNow().Sub(time.Unix(0, st.since.Load())) > HangLimit {
				if !hung[int(it-1)] {
					hung[int(it-1)] = true
					i := int(it - 1)
					// confirm on a fresh goroutine before believing it
					ch := make(chan struct{})
					go func() { safe(i); close(ch) }()
					select {
					case <-ch:
						c.Incomplete(fmt.Sprintf("plan %q item %d exceeded %v once but finished when re-executed (machine load?)", plan, i, HangLimit))
					case <-time.After(HangLimit):
						c.Violation("hang", fmt.Sprintf("plan %q item %d: the history did not finish within %v, twice (an operation never returns)", plan, i, HangLimit), ItemCase{plan, i})
					}
				}
				continue // abandoned
			}
			allDone = false
		}
		if allDone {
			break
		}
		time.Sleep(20 * time.Millisecond)
	}
	if len(hung) > 0 {
		stopped.Store(true)
	}
	return cnt.Load(), !stopped.Load()
}

func (c *Ctx) write() {
	c.mu.Lock()
	defer c.mu.Unlock()
	res := map[string]any{
		"property":    c.Prop,
		"tier":        c.tier,
		"seed":        c.seed,
		"shard":       c.shard,
		"nshards":     c.nshards,
		"evaluations": c.evals.Load(),
		"transitions": c.trans.Load(),
		"states":      len(c.states),
		"nontrivial":  len(c.nontrivial),
		"samples":     c.samples,
		"outcomes":    c.outcomes,
		"violations":  c.violations,
		"vio_classes": c.vioClasses,
		"incomplete":  c.incomplete,
		"notes":       c.notes,
		"wall_s":      realNow().Sub(c.start).Seconds(),
		"final":       c.final.Load(),
	}
	if c.out == "" {
		b, _ := json.MarshalIndent(res, "", " ")
		fmt.Println(string(b))
		return
	}
	if c.nshards > 1 {
		writeHashes(c.out+".states", c.states)
		writeHashes(c.out+".nontrivial", c.nontrivial)
	}
	b, _ := json.Marshal(res)
	tmp := c.out + ".tmp"
	os.WriteFile(tmp, b, 0o644)
	os.Rename(tmp, c.out)
}

func writeHashes(p string, m map[uint64]struct{}) {
	ks := make([]uint64, 0, len(m))
	for k := range m {
		ks = append(ks, k)
	}
	sort.Slice(ks, func(i, j int) bool { return ks[i] < ks[j] })
	buf := make([]byte, 8*len(ks))
	for i, k := range ks {
		binary.LittleEndian.PutUint64(buf[8*i:], k)
	}
	os.WriteFile(p, buf, 0o644)
}

// Hash is a convenience 64-bit FNV-1a over the string forms of its arguments.
func Hash(parts ...any) uint64 {
	h := fnv.New64a()
	for _, p := range parts {
		switch v := p.(type) {
		case string:
			h.Write([]byte(v))
		case []byte:
			h.Write(v)
		default:
			fmt.Fprint(h, v)
		}
		h.Write([]byte{0xff})
	}
	return h.Sum64()
}

// BudgetSeconds returns the wall-clock budget of this run in seconds.
func (c *Ctx) BudgetSeconds() float64 {
	if s := os.Getenv("VERIF_BUDGET_S"); s != "" {
		if f, err := strconv.ParseFloat(s, 64); err == nil {
			return f
		}
	}
	return 3600
}

// WriteAndExit writes the result file and exits the process; used by harnesses that cannot unwind
// (e.g. goroutines parked inside a synctest bubble).
func (c *Ctx) WriteAndExit() {
	c.final.Store(true)
	c.write()
	os.Exit(0)
}

// realNow is the real wall clock even inside a testing/synctest bubble (where time.Now is virtual).
func realNow() time.Time {
	var tv syscall.Timeval
	syscall.Gettimeofday(&tv)
	return time.Unix(tv.Sec, tv.Usec*1000)
}
