// Package vrand replaces math/rand/v2 in instrumented builds: the package-level functions draw
// from a deterministic per-thread (managed) or per-execution (unmanaged) stream while an exploration
// is active, so that e.g. skiplist tower heights are the same when a schedule is replayed. Types
// and constructors are aliases of the real ones.
package vrand

import (
	"math/rand/v2"

	"github.com/cockroachdb/pebble/internal/verif/vsched"
)

type (
	Rand    = rand.Rand
	Source  = rand.Source
	PCG     = rand.PCG
	ChaCha8 = rand.ChaCha8
	Zipf    = rand.Zipf
)

func New(src Source) *Rand                             { return rand.New(src) }
func NewPCG(seed1, seed2 uint64) *PCG                  { return rand.NewPCG(seed1, seed2) }
func NewChaCha8(seed [32]byte) *ChaCha8                { return rand.NewChaCha8(seed) }
func NewZipf(r *Rand, s, v float64, imax uint64) *Zipf { return rand.NewZipf(r, s, v, imax) }

type src struct{}

func (src) Uint64() uint64 {
	if v, ok := vsched.Rand64(); ok {
		return v
	}
	return rand.Uint64()
}

var g = rand.New(src{})

func Int() int                           { return g.Int() }
func IntN(n int) int                     { return g.IntN(n) }
func Int32() int32                       { return g.Int32() }
func Int32N(n int32) int32               { return g.Int32N(n) }
func Int64() int64                       { return g.Int64() }
func Int64N(n int64) int64               { return g.Int64N(n) }
func Uint() uint                         { return g.Uint() }
func UintN(n uint) uint                  { return g.UintN(n) }
func Uint32() uint32                     { return g.Uint32() }
func Uint32N(n uint32) uint32            { return g.Uint32N(n) }
func Uint64() uint64                     { return g.Uint64() }
func Uint64N(n uint64) uint64            { return g.Uint64N(n) }
func Float32() float32                   { return g.Float32() }
func Float64() float64                   { return g.Float64() }
func NormFloat64() float64               { return g.NormFloat64() }
func ExpFloat64() float64                { return g.ExpFloat64() }
func Perm(n int) []int                   { return g.Perm(n) }
func Shuffle(n int, swap func(i, j int)) { g.Shuffle(n, swap) }

func N[Int interface {
	~int | ~int8 | ~int16 | ~int32 | ~int64 | ~uint | ~uint8 | ~uint16 | ~uint32 | ~uint64 | ~uintptr
}](n Int) Int {
	if n <= 0 {
		panic("invalid argument to N")
	}
	return Int(g.Uint64N(uint64(n)))
}
