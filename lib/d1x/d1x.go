// Package d1x glues the controlled scheduler (vsched) to the harness runtime (vlib): it runs a list
// of scenarios, each through the determinism gate and then the deviation-bounded DFS with the bound
// iterated 0,1,2,..., and turns failing executions into replayable violations.
package d1x

import (
	"fmt"
	"os"
	"strings"
	"testing"
	"time"

	"github.com/cockroachdb/pebble/internal/verif/vlib"
	"github.com/cockroachdb/pebble/internal/verif/vsched"
)

// Scenario is one closed driver: a few threads on a small shared structure.
type Scenario struct {
	Name string
	New  func() vsched.Harness
	// Judge inspects a finished execution: outcome is a canonical rendering of what the threads
	// observed (feeds the outcome histogram; one outcome from many schedules means nothing
	// collided); class != "" reports a violation.
	Judge func(h vsched.Harness, x *vsched.Exec) (outcome, class, desc string)
	// Bound is the deviation bound to complete in the quick and in the thorough tier.
	QuickBound, ThoroughBound int
	// SoloBelow: bounds < SoloBelow are explored by ONE shard alone (the scenario's index picks it)
	// instead of being split by subtree: the second-level split makes every shard repeat the root
	// and first-level executions, which for a search of a few dozen executions is all of it.
	SoloBelow int
	// QuickEnv/ThoroughEnv > 0: injected faults (non-default environment answers) get a budget of
	// their own instead of sharing the deviation bound with preemptions.
	QuickEnv, ThoroughEnv int
	// QuickIO/ThoroughIO > 0: that many switches away from a thread parked at an I/O point (vsched
	// Op.IO) are allowed on top of the preemption bound.
	QuickIO, ThoroughIO int
	MaxSteps            int
	NoCache             bool
	// Share of the check's time budget (relative weight, default 1).
	Weight float64
}

// Case is the replay artefact of a schedule.
type Case struct {
	Scenario string `json:"scenario"`
	Choices  []int  `json:"choices"`
	Bound    int    `json:"bound"`
	EnvBound int    `json:"env_bound,omitempty"`
	IOBound  int    `json:"io_bound,omitempty"`
}

func traceSig(x *vsched.Exec, outcome string) string {
	return fmt.Sprintf("steps=%d choices=%v deadlock=%q panics=%d outcome=%s trace=%s", x.Steps, x.Choices, x.Deadlock, len(x.Panics), outcome, strings.Join(x.Trace, ";"))
}

// Run executes all scenarios inside one synctest bubble and never returns: it writes the result
// file and exits the process (goroutines parked by deadlocked executions cannot be reclaimed).
func Run(t *testing.T, c *vlib.Ctx, scenarios []Scenario) {
	vsched.InBubble(t, func() {
		run(t, c, scenarios)
		c.WriteAndExit()
	})
}

func judgeAll(sc *Scenario, h vsched.Harness, x *vsched.Exec) (outcome, class, desc string) {
	if len(x.Panics) > 0 {
		return "panic", "panic", x.Panics[0]
	}
	if x.Deadlock != "" {
		return "deadlock", "deadlock", x.Deadlock
	}
	return sc.Judge(h, x)
}

func run(t *testing.T, c *vlib.Ctx, scenarios []Scenario) {
	if c.ReplayPath() != "" {
		var cs Case
		if err := c.LoadReplay(&cs); err != nil {
			t.Fatal(err)
		}
		for i := range scenarios {
			sc := &scenarios[i]
			if sc.Name != cs.Scenario {
				continue
			}
			e := &vsched.Explorer{New: sc.New, Bound: cs.Bound, EnvBound: cs.EnvBound, IOBound: cs.IOBound, NoCache: true, MaxSteps: sc.MaxSteps}
			x, h := e.RunOne(cs.Choices, true)
			outcome, class, desc := judgeAll(sc, h, x)
			for _, l := range x.Trace {
				fmt.Println(l)
			}
			fmt.Printf("replay %s: outcome=%s class=%q %s diverged=%q\n", sc.Name, outcome, class, desc, x.Diverged)
			c.Eval(1)
			c.Trans(x.Steps)
			if class != "" {
				c.Violation(class, desc, cs)
			}
		}
		return
	}
	only := os.Getenv("VERIF_SCENARIO")
	// the time budget is shared (by weight) among the scenarios that run in this tier
	totalW := 0.0
	for i := range scenarios {
		sc := &scenarios[i]
		if (only != "" && only != sc.Name) || (!c.Thorough() && sc.QuickBound < 0) {
			sc.Weight = -1 // does not run
			continue
		}
		if sc.Weight == 0 {
			sc.Weight = 1
		}
		totalW += sc.Weight
	}
	start := vsched.RealNow()
	budget := c.BudgetSeconds()
	for i := range scenarios {
		sc := &scenarios[i]
		if sc.Weight < 0 {
			continue // another scenario was selected, or thorough-only
		}
		deadline := start.Add(time.Duration(budget * 0.9 * sumW(scenarios[:i+1]) / totalW * float64(time.Second)))
		// one note per scenario; when shards report different lines (a bound explored by its owning
		// shard alone) the merge keeps the most complete one
		if line := runScenario(c, sc, i, deadline); line != "" {
			c.Note("scenario "+sc.Name, line)
		}
	}
}

func envNote(n int) string {
	if n > 0 {
		return fmt.Sprintf(" (+%d injected faults)", n)
	}
	return ""
}

func ioNote(n int) string {
	if n > 0 {
		return fmt.Sprintf(" (+%d switches at I/O calls)", n)
	}
	return ""
}

func sumW(s []Scenario) float64 {
	w := 0.0
	for i := range s {
		if s[i].Weight > 0 {
			w += s[i].Weight
		}
	}
	return w
}

func runScenario(c *vlib.Ctx, sc *Scenario, idx int, deadline time.Time) string {
	// Determinism gate: the default schedule and the first alternative schedule, each twice, must
	// give identical traces and outcomes; otherwise the scenario is reported incomplete (a harness
	// defect, never a violation).
	gate := &vsched.Explorer{New: sc.New, Bound: 1, NoCache: true, MaxSteps: sc.MaxSteps}
	var firstAlt []int
	for round := 0; round < 2; round++ {
		prefix := []int(nil)
		if round == 1 {
			if firstAlt == nil {
				break
			}
			prefix = firstAlt
		}
		var sig string
		for k := 0; k < 2; k++ {
			x, h := gate.RunOne(prefix, true)
			outcome, _, _ := judgeAll(sc, h, x)
			s := traceSig(x, outcome)
			if k == 0 {
				sig = s
				if round == 0 {
					for i, p := range x.Points {
						if p.N > 1 {
							firstAlt = append(append([]int{}, x.Choices[:i]...), 1)
							break
						}
					}
				}
			} else if s != sig {
				c.Incomplete(fmt.Sprintf("scenario %s failed the determinism gate (schedule %v replayed differently); not explored", sc.Name, prefix))
				c.Note("gate_"+sc.Name, []string{sig, s})
				return "determinism gate failed"
			}
			if x.Diverged != "" {
				c.Incomplete(fmt.Sprintf("scenario %s: %s", sc.Name, x.Diverged))
				return "replay divergence in gate"
			}
		}
	}
	maxBound, envBound, ioBound := sc.QuickBound, sc.QuickEnv, sc.QuickIO
	if c.Thorough() {
		maxBound, envBound, ioBound = sc.ThoroughBound, sc.ThoroughEnv, sc.ThoroughIO
	}
	if v := os.Getenv("VERIF_BOUND"); v != "" { // debugging aid: explore one scenario deeper
		fmt.Sscan(v, &maxBound)
	}
	completed := -1
	var res []string
	for b := 0; b <= maxBound; b++ {
		outcomes := map[string]int64{}
		nViol := 0
		shard, nshards := c.Shard(), c.NShards()
		if b < sc.SoloBelow && nshards > 1 {
			if idx%nshards != shard {
				completed = b // explored by the owning shard
				continue
			}
			shard, nshards = 0, 1
		}
		e := &vsched.Explorer{New: sc.New, Bound: b, EnvBound: envBound, IOBound: ioBound, NoCache: sc.NoCache || os.Getenv("VERIF_NOCACHE") != "", MaxSteps: sc.MaxSteps,
			Deadline: deadline, Shard: shard, NShards: nshards}
		e.Check = func(h vsched.Harness, x *vsched.Exec) {
			c.Eval(1)
			c.Trans(x.Steps)
			outcome, class, desc := judgeAll(sc, h, x)
			outcomes[outcome]++
			c.State(vlib.Hash(sc.Name, outcome))
			devs := 0
			if n := len(x.Points); n > 0 {
				devs = x.Points[n-1].Devs
			}
			if devs > 0 || len(x.Choices) > 0 {
				nz := false
				for _, ch := range x.Choices {
					if ch != 0 {
						nz = true
					}
				}
				if nz {
					c.Nontrivial(vlib.Hash(sc.Name, fmt.Sprint(x.Choices)))
				}
			}
			if x.Diverged != "" {
				c.Incomplete(fmt.Sprintf("scenario %s: %s", sc.Name, x.Diverged))
				return
			}
			if class != "" {
				nViol++
				if nViol > 3 {
					return
				}
				cs := Case{Scenario: sc.Name, Choices: x.Choices, Bound: b, EnvBound: envBound, IOBound: ioBound}
				// re-execute before believing it
				re := &vsched.Explorer{New: sc.New, Bound: b, EnvBound: envBound, IOBound: ioBound, NoCache: true, MaxSteps: sc.MaxSteps}
				for k := 0; k < 3; k++ {
					x2, h2 := re.RunOne(x.Choices, false)
					_, class2, _ := judgeAll(sc, h2, x2)
					if class2 != class {
						c.Incomplete(fmt.Sprintf("scenario %s: violation %s did not reproduce on replay of %v (got %q)", sc.Name, class, x.Choices, class2))
						return
					}
				}
				c.Violation(class, fmt.Sprintf("scenario %s bound %d schedule %v: %s", sc.Name, b, x.Choices, desc), cs)
			}
			if e.Execs%2003 == 1 {
				c.Sample(map[string]any{"scenario": sc.Name, "bound": b, "choices": fmt.Sprint(x.Choices), "steps": x.Steps, "outcome": outcome})
			}
		}
		e.Explore()
		for k, v := range outcomes {
			c.OutcomeN(sc.Name+": "+k, v)
		}
		r := fmt.Sprintf("bound %d"+envNote(envBound)+ioNote(ioBound)+": %d executions, %d steps, %d distinct outcomes, cache %d states/%d hits", b, e.Execs, e.StepsTotal, len(outcomes), e.CacheSize, e.CacheHits)
		if e.Capped != "" {
			r += " (CAPPED: " + e.Capped + ")"
			res = append(res, r)
			c.Incomplete(fmt.Sprintf("scenario %s: %s at bound %d after %d executions; bound %d complete", sc.Name, e.Capped, b, e.Execs, completed))
			break
		}
		completed = b
		res = append(res, r)
		if nViol > 0 {
			break // the smallest bound with a counterexample is the one to report
		}
	}
	if len(res) == 0 {
		return "" // explored by the owning shard
	}
	return fmt.Sprintf("completed bound %d; %s", completed, strings.Join(res, "; "))
}
