package vsched

import (
	"fmt"
	"syscall"
	"testing"
	"testing/synctest"
	"time"
)

// Harness describes one scenario. New is called once per execution.
type Harness interface {
	// Setup runs unmanaged (inside the bubble) before the threads start.
	Setup()
	// Threads returns the bodies of the initial managed threads.
	Threads() []func()
	// Teardown runs unmanaged after all managed threads finished (or a deadlock was declared, in
	// which case deadlocked is true and Teardown must not wait for the stuck threads).
	Teardown(deadlocked bool)
}

// Finisher is optionally implemented by a Harness: Finish runs as one more managed thread after all
// initial threads have finished (e.g. DB.Close, which needs the background threads the scenario
// spawned to keep being scheduled). Decisions taken during this phase are not branched on.
type Finisher interface {
	Finish()
}

// Exec is the result of one execution.
type Exec struct {
	Choices  []int
	Points   []PointInfo
	Steps    int
	Deadlock string
	Panics   []string
	Diverged string
	Trace    []string
	TimeAdv  int
}

// Explorer is a deviation-bounded DFS over schedules (iterative context bounding).
type Explorer struct {
	New   func() Harness
	Bound int
	// EnvBound > 0 gives non-default environment answers (injected faults) a budget of their own:
	// up to EnvBound of them per execution, in addition to Bound preemptions. 0: they share Bound.
	EnvBound int
	// IOBound > 0: up to IOBound switches away from a thread that is parked at an I/O point (Op.IO)
	// and still enabled are allowed in addition to Bound preemptions. There are far fewer I/O points
	// than synchronisation points, so "one descheduling at an I/O call" is a much smaller search than
	// "one preemption anywhere". 0: such a switch is an ordinary preemption.
	IOBound  int
	MaxExec  int64                    // cap on executions (0 = none)
	Deadline time.Time                // wall-clock cap (zero = none)
	MaxSteps int                      // livelock horizon per execution
	NoCache  bool                     // disable the happens-before state cache
	Check    func(h Harness, x *Exec) // called after every complete execution
	Shard    int
	NShards  int
	TraceAll bool

	Execs      int64
	StepsTotal int64
	CacheHits  int64
	CacheSize  int
	Capped     string // non-empty if a cap stopped the search
	cache      map[uint64]int
	subtree    int64
}

// RunOne executes the schedule given by prefix (then default choices) and returns the execution and
// the harness instance. Must be called inside the synctest bubble.
func (e *Explorer) RunOne(prefix []int, trace bool) (*Exec, Harness) {
	s := &Sched{prefix: prefix, objH: map[uintptr]*uint64{}, traceOn: trace || e.TraceAll, prunedAt: -1, exp: e}
	s.execRng = 0x1234567
	s.maxSteps = e.MaxSteps
	if s.maxSteps == 0 {
		s.maxSteps = 200000
	}
	h := e.New()
	cur.Store(s)
	active.Store(true)
	h.Setup()
	for i, f := range h.Threads() {
		t := s.spawn(f, fmt.Sprintf("main%d", i))
		t.main = true
	}
	if fin, ok := h.(Finisher); ok {
		s.finisher = fin.Finish
	}
	timeAdv := s.loop()
	x := &Exec{Choices: s.Choices, Points: s.Points, Steps: s.Steps, Deadlock: s.Deadlock, Diverged: s.Diverged, Trace: s.Trace, TimeAdv: timeAdv}
	for _, t := range s.threads {
		if t.Panic != nil {
			x.Panics = append(x.Panics, fmt.Sprintf("T%d %s: panic: %v\n%s", t.ID, t.Name, t.Panic, t.PanicStk))
		}
	}
	// Teardown runs unmanaged: stop treating the threads of this execution as managed.
	active.Store(false)
	h.Teardown(s.Deadlock != "")
	cur.Store(nil)
	return x, h
}

// loop schedules until every managed thread has finished; returns the number of virtual-time
// advances it needed.
func (s *Sched) loop() int {
	timeAdv := 0
	idle := 0
	for {
		synctest.Wait()
		s.mu.Lock()
		var enabled []*Thread
		var yielders []*Thread
		unfinished := 0 // unfinished threads that must finish: initial threads and the finisher
		runEnabled := false
		for _, t := range s.threads {
			if t.finished {
				continue
			}
			if t.main {
				unfinished++
			}
			if !t.parked {
				t.unhooked = true // blocked in an un-hooked operation (real channel, timer, ...)
				continue
			}
			if t.pending.Enabled != nil && !t.pending.Enabled() {
				continue
			}
			if t.pending.Yield {
				yielders = append(yielders, t)
				continue
			}
			if t == s.running {
				runEnabled = true
				continue
			}
			enabled = append(enabled, t)
		}
		if unfinished == 0 && s.finisher != nil && !s.finishing {
			// all initial threads are done: start the finisher as one more managed thread
			s.finishing = true
			fin := s.finisher
			s.mu.Unlock()
			t := s.spawn(fin, "finish")
			s.mu.Lock()
			t.main = true
			s.mu.Unlock()
			continue
		}
		if unfinished == 0 && len(enabled) == 0 && len(yielders) == 0 && !runEnabled {
			// Everything that has to finish has finished, and no spawned background thread can
			// run: threads still parked here are daemons waiting for work (e.g. a WAL flush loop
			// on its condition variable); they are abandoned, which is not a deadlock.
			s.mu.Unlock()
			return timeAdv
		}
		if runEnabled {
			enabled = append([]*Thread{s.running}, enabled...)
		}
		enabled = append(enabled, yielders...)
		if len(enabled) == 0 {
			// Nothing can run. Threads may be waiting for (virtual) time or for an unmanaged
			// goroutine: let time pass, a bounded number of times.
			if idle < 50 {
				idle++
				timeAdv++
				s.mu.Unlock()
				time.Sleep(time.Duration(idle) * 10 * time.Millisecond)
				continue
			}
			s.Deadlock = "no enabled thread:\n" + s.describeThreads()
			s.mu.Unlock()
			return timeAdv
		}
		idle = 0
		if s.Steps >= s.maxSteps {
			s.Deadlock = fmt.Sprintf("livelock horizon: %d steps without termination\n%s", s.Steps, s.describeThreads())
			s.Livelock = true
			s.mu.Unlock()
			return timeAdv
		}
		if len(enabled) == 1 {
			// a forced move is not a decision: it is not recorded (keeps choice lists short)
			s.resumeLocked(enabled[0])
			continue
		}
		i := len(s.Choices)
		c := 0
		if i < len(s.prefix) {
			c = s.prefix[i]
			if c >= len(enabled) {
				s.Diverged = fmt.Sprintf("replay divergence at decision %d: choice %d of %d enabled", i, c, len(enabled))
				c = 0
			}
		}
		atIO := runEnabled && s.running.pending != nil && s.running.pending.IO && s.exp != nil && s.exp.IOBound > 0
		pi := PointInfo{N: len(enabled), RunEnabled: runEnabled, Devs: s.devs, EnvDevs: s.envDevs, IO: atIO, IODevs: s.ioDevs}
		if e := s.exp; e != nil && !e.NoCache && i >= len(s.prefix) && s.prunedAt < 0 {
			key := s.stateKey()
			pi.Key = key
			// remaining budgets, packed; a cached entry prunes only if it dominates in both
			left := (e.Bound-s.devs)<<16 | (e.IOBound-s.ioDevs)<<8 | (e.EnvBound - s.envDevs)
			if old, ok := e.cache[key]; ok && old>>16 >= left>>16 && (old>>8)&0xff >= (left>>8)&0xff && old&0xff >= left&0xff {
				s.prunedAt = i
				e.CacheHits++
			} else {
				e.cache[key] = left
			}
		}
		if s.finishing && s.prunedAt < 0 {
			s.prunedAt = i // no branching inside the finish phase
		}
		pi.Pruned = s.prunedAt >= 0
		s.Points = append(s.Points, pi)
		s.Choices = append(s.Choices, c)
		if c != 0 && runEnabled {
			if atIO && s.ioDevs < s.exp.IOBound {
				s.ioDevs++
			} else {
				s.devs++
			}
		}
		s.resumeLocked(enabled[c])
	}
}

func (s *Sched) resumeLocked(t *Thread) {
	s.running = t
	t.parked = false
	s.Steps++
	if s.traceOn {
		_, file, line := "", "", 0
		_ = file
		_ = line
		s.Trace = append(s.Trace, fmt.Sprintf("T%d %s", t.ID, t.pending.Kind))
	}
	s.mu.Unlock()
	t.resume <- struct{}{}
}

// Explore runs the DFS. It must be called inside the bubble (see InBubble).
func (e *Explorer) Explore() {
	e.cache = map[uint64]int{}
	e.explore(nil, 0)
	e.CacheSize = len(e.cache)
}

func (e *Explorer) capped() bool {
	if e.Capped != "" {
		return true
	}
	if e.MaxExec > 0 && e.Execs >= e.MaxExec {
		e.Capped = fmt.Sprintf("execution cap %d reached", e.MaxExec)
		return true
	}
	if !e.Deadline.IsZero() && realNow().After(e.Deadline) {
		e.Capped = "wall-clock budget reached"
		return true
	}
	return false
}

func (e *Explorer) explore(prefix []int, depth int) {
	if e.capped() {
		return
	}
	x, h := e.RunOne(prefix, false)
	e.Execs++
	e.StepsTotal += int64(x.Steps)
	if e.Check != nil {
		e.Check(h, x)
	}
	if x.Diverged != "" {
		return
	}
	for i := len(prefix); i < len(x.Points); i++ {
		p := x.Points[i]
		if p.Pruned {
			break
		}
		for alt := 1; alt < p.N; alt++ {
			if p.Env && e.EnvBound > 0 {
				if p.EnvDevs+1 > e.EnvBound || p.Devs > e.Bound {
					continue
				}
			} else if p.IO && !p.Env && p.IODevs+1 <= e.IOBound {
				// a switch away from a thread waiting for I/O, paid from the I/O budget
				if p.Devs > e.Bound {
					continue
				}
			} else {
				cost := p.Devs
				if p.Env || p.RunEnabled {
					cost++
				}
				if cost > e.Bound {
					continue
				}
			}
			// Sharding: the SECOND-level subtrees are dealt round-robin (first-level subtrees differ in
			// size by orders of magnitude; every shard runs the root and the first-level executions
			// itself, a few hundred duplicates).
			if depth == 1 && e.NShards > 1 {
				e.subtree++
				if int(e.subtree)%e.NShards != e.Shard {
					continue
				}
			}
			np := append(append(make([]int, 0, i+1), x.Choices[:i]...), alt)
			e.explore(np, depth+1)
			if e.capped() {
				return
			}
		}
	}
}

// InBubble runs f inside a synctest bubble.
func InBubble(t *testing.T, f func()) {
	synctest.Test(t, func(t *testing.T) {
		f()
	})
}

// realNow returns the real wall clock (time.Now is virtual inside the bubble).
func realNow() time.Time {
	var tv syscall.Timeval
	syscall.Gettimeofday(&tv)
	return time.Unix(tv.Sec, tv.Usec*1000)
}

// RealNow is the real wall clock for harnesses running inside the bubble.
func RealNow() time.Time { return realNow() }
