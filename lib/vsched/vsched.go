// Package vsched is engine D1: a controlled cooperative scheduler for real goroutines whose
// synchronisation operations have been redirected (by /verif/instr) to the shims in vsync/vatomic.
// It runs inside one testing/synctest bubble; synctest.Wait() is the step-completion detector.
//
// A *managed* thread parks at a Point() before every synchronisation operation and runs only when
// the scheduler resumes it, so exactly one managed thread runs at a time and the schedule is an
// explicit choice sequence. Goroutines the scheduler did not create (setup/teardown phases, Pebble
// background goroutines started by an unmanaged Open) are *unmanaged*: the shims fall through to
// plain blocking implementations whose waits are durable (channel based), so synctest.Wait()
// still returns.
package vsched

import (
	"fmt"
	"runtime"
	"sort"
	"strings"
	"sync"
	"sync/atomic"
)

// Op describes the operation a parked thread is about to perform.
type Op struct {
	Kind    string
	Enabled func() bool // nil: always enabled
	Yield   bool
	// IO marks an input/output call (an FS operation): with Explorer.IOBound > 0, switching away from
	// a thread parked at such a point is paid from the I/O budget instead of the preemption budget
	// ("a thread waiting for the disk is descheduled").
	IO bool
}

// Thread is a managed goroutine.
type Thread struct {
	ID       int
	Name     string
	s        *Sched
	resume   chan struct{}
	parked   bool
	finished bool
	started  bool
	main     bool // must finish for the execution to be complete (initial threads, the finisher)
	pending  *Op
	unhooked bool // was seen blocked in an un-hooked operation
	H        uint64
	rng      uint64
	Panic    any
	PanicStk string
	steps    int
	// RandQueue, when non-empty, supplies the next values of the math/rand/v2 global functions
	// for this thread (the harness dictates e.g. skiplist tower heights).
	RandQueue []uint64
	// atomic > 0: the thread is inside a harness-declared atomic section (an oracle that inspects
	// shared state): operations that are enabled proceed without a scheduling point.
	atomic int
}

// BeginAtomic starts an atomic section: until EndAtomic, every hooked operation of this thread that
// is enabled at the moment it is reached proceeds without parking (an operation that is not enabled,
// e.g. a lock held by a parked thread, still parks as usual). Meant for oracle code that runs on a
// managed thread (a crash image taken at the moment of an acknowledgement) and whose own
// synchronisation is of no interest; never for code under test.
func (t *Thread) BeginAtomic() { t.atomic++ }

// EndAtomic ends the section started by BeginAtomic.
func (t *Thread) EndAtomic() { t.atomic-- }

// PointInfo records one decision of an execution.
type PointInfo struct {
	N          int  // number of alternatives
	Env        bool // environment answer (Choose) rather than a scheduling decision
	RunEnabled bool // the running thread was still enabled (alternative != 0 is a preemption)
	Devs       int  // deviations (preemptions + non-default env answers) before this point
	IO         bool // the running thread is parked at an I/O point
	IODevs     int  // with Explorer.IOBound > 0: switches away from a thread at an I/O point before this point (not counted in Devs)
	EnvDevs    int  // with a separate environment budget (Explorer.EnvBound > 0): non-default env answers before this point (not counted in Devs)
	Key        uint64
	Pruned     bool
}

// Sched is the state of one execution.
type Sched struct {
	mu        sync.Mutex
	threads   []*Thread
	running   *Thread
	prefix    []int
	Choices   []int
	Points    []PointInfo
	devs      int
	envDevs   int
	ioDevs    int
	Steps     int
	Deadlock  string
	Livelock  bool
	Trace     []string
	traceOn   bool
	objH      map[uintptr]*uint64
	execRng   uint64
	Diverged  string
	aborted   bool
	prunedAt  int
	fresh     uint64
	maxSteps  int
	exp       *Explorer
	finisher  func()
	finishing bool
	envH      uint64
}

var (
	active  atomic.Bool
	cur     atomic.Pointer[Sched]
	byGoid  sync.Map // goid -> *Thread
	freshCt atomic.Uint64
)

func goid() uint64 {
	var buf [64]byte
	n := runtime.Stack(buf[:], false)
	// "goroutine 123 ["
	var id uint64
	for i := len("goroutine "); i < n; i++ {
		c := buf[i]
		if c < '0' || c > '9' {
			break
		}
		id = id*10 + uint64(c-'0')
	}
	return id
}

// Cur returns the managed thread of the calling goroutine, or nil.
func Cur() *Thread {
	if !active.Load() {
		return nil
	}
	if v, ok := byGoid.Load(goid()); ok {
		return v.(*Thread)
	}
	return nil
}

// Active reports whether an exploration is in progress.
func Active() bool { return active.Load() }

func mix(a, b uint64, c uint64) uint64 {
	h := a*0x9e3779b97f4a7c15 ^ (b + 0x7f4a7c159e3779b9 + (a << 6) + (a >> 2))
	h ^= c * 0xff51afd7ed558ccd
	h ^= h >> 33
	h *= 0xc4ceb9fe1a85ec53
	h ^= h >> 29
	return h
}

// Point parks the calling managed thread until the scheduler resumes it. No-op when unmanaged.
func (t *Thread) Point(op *Op) {
	s := t.s
	if t.atomic > 0 && !op.Yield && (op.Enabled == nil || op.Enabled()) {
		return
	}
	s.mu.Lock()
	if t.unhooked {
		// it was woken through an un-hooked operation (a real channel): it may have received
		// information the hashes cannot see, so it must never be merged with another state.
		t.H = mix(t.H, freshCt.Add(1), 0x55)
		t.unhooked = false
	}
	t.pending = op
	t.parked = true
	t.steps++
	// Every point advances the thread's history hash (kind of operation and the thread's own step
	// count, both functions of the thread's history): a harness-defined point (an FS call, a
	// storage call) that no shim follows must still change the state key, otherwise the decision
	// after it would look like a state already expanded and its subtree would be pruned.
	t.H = mix(t.H, strHash(op.Kind), uint64(t.steps))
	s.mu.Unlock()
	<-t.resume
}

func strHash(s string) uint64 {
	h := uint64(14695981039346656037)
	for i := 0; i < len(s); i++ {
		h ^= uint64(s[i])
		h *= 1099511628211
	}
	return h
}

// EnvPoint is a scheduling point for an operation on harness-owned shared state (a fake file, a
// shared storage): besides parking, it orders the operation after every earlier EnvPoint operation
// in the happens-before hashes (conservatively: all environment operations are treated as
// conflicting), so that two states that differ in the order of environment operations are never
// merged by the state cache.
func (t *Thread) EnvPoint(kind string) {
	t.Point(&Op{Kind: kind})
	s := t.s
	s.mu.Lock()
	t.Acq(&s.envH, strHash(kind))
	s.mu.Unlock()
}

// Acq records an acquire-release operation on the object whose history hash is *obj.
func (t *Thread) Acq(obj *uint64, code uint64) {
	if t.atomic > 0 {
		// An oracle section only inspects: it must not create happens-before edges, otherwise every
		// moment at which the oracle runs would look like a different state to the state cache.
		// Sound because such a section releases every lock it takes before it ends and changes only
		// harness-owned verdict fields, and because every execution is judged in full (a cache hit
		// only stops branching).
		return
	}
	h := mix(*obj, t.H, code)
	*obj = h
	t.H = h
}

// Load records a pure read of the object.
func (t *Thread) Load(obj *uint64, code uint64) {
	if t.atomic > 0 {
		return
	}
	t.H = mix(t.H, *obj, code)
}

// Observe mixes an environment answer or other observed value into the thread's history.
func (t *Thread) Observe(v uint64) { t.H = mix(t.H, v, 0x77) }

// ObjH returns the history-hash cell for an object identified by address (used for atomics, whose
// shim types keep the layout of the real ones).
func (t *Thread) ObjH(addr uintptr) *uint64 {
	s := t.s
	s.mu.Lock()
	p := s.objH[addr]
	if p == nil {
		p = new(uint64)
		s.objH[addr] = p
	}
	s.mu.Unlock()
	return p
}

// Yield is the replacement of runtime.Gosched(): a scheduling point that puts the caller last.
func Yield() {
	if t := Cur(); t != nil {
		t.Point(&Op{Kind: "yield", Yield: true})
		return
	}
	runtime.Gosched()
}

// Go is the replacement of the go statement.
func Go(fn func()) {
	t := Cur()
	if t == nil {
		go fn()
		return
	}
	t.s.spawn(fn, callerName())
}

func callerName() string {
	pc, _, _, ok := runtime.Caller(2)
	if !ok {
		return "?"
	}
	n := runtime.FuncForPC(pc).Name()
	if i := strings.LastIndex(n, "/"); i >= 0 {
		n = n[i+1:]
	}
	return n
}

func (s *Sched) spawn(fn func(), name string) *Thread {
	s.mu.Lock()
	t := &Thread{ID: len(s.threads), Name: name, s: s, resume: make(chan struct{})}
	t.H = mix(uint64(t.ID)+1, 0xabcdef, 1)
	t.rng = mix(s.execRng, uint64(t.ID), 3)
	s.threads = append(s.threads, t)
	s.mu.Unlock()
	go func() {
		id := goid()
		byGoid.Store(id, t)
		defer func() {
			if r := recover(); r != nil {
				buf := make([]byte, 16<<10)
				n := runtime.Stack(buf, false)
				s.mu.Lock()
				t.Panic = r
				t.PanicStk = string(buf[:n])
				s.mu.Unlock()
			}
			byGoid.Delete(id)
			s.mu.Lock()
			t.finished = true
			t.parked = false
			s.mu.Unlock()
		}()
		t.Point(&Op{Kind: "start"})
		fn()
	}()
	return t
}

// Choose returns an environment answer in [0,n): 0 is the default; any other answer costs one
// deviation. Unmanaged callers always get 0.
func Choose(n int, label string) int {
	t := Cur()
	if t == nil || n <= 1 {
		return 0
	}
	s := t.s
	s.mu.Lock()
	defer s.mu.Unlock()
	i := len(s.Choices)
	c := 0
	if i < len(s.prefix) {
		c = s.prefix[i]
		if c >= n {
			s.Diverged = fmt.Sprintf("replay divergence at decision %d (env %s): choice %d of %d", i, label, c, n)
			c = 0
		}
	}
	s.Points = append(s.Points, PointInfo{N: n, Env: true, Devs: s.devs, EnvDevs: s.envDevs, Pruned: s.prunedAt >= 0})
	s.Choices = append(s.Choices, c)
	if c != 0 {
		if s.exp != nil && s.exp.EnvBound > 0 {
			s.envDevs++
		} else {
			s.devs++
		}
	}
	if s.traceOn {
		s.Trace = append(s.Trace, fmt.Sprintf("T%d env %s -> %d/%d", t.ID, label, c, n))
	}
	t.H = mix(t.H, uint64(c), 0x99)
	return c
}

// Rand64 returns the next value of the deterministic per-thread (or per-execution) stream.
func Rand64() (uint64, bool) {
	if !active.Load() {
		return 0, false
	}
	s := cur.Load()
	if s == nil {
		return 0, false
	}
	next := func(x *uint64) uint64 {
		*x += 0x9e3779b97f4a7c15
		z := *x
		z = (z ^ (z >> 30)) * 0xbf58476d1ce4e5b9
		z = (z ^ (z >> 27)) * 0x94d049bb133111eb
		return z ^ (z >> 31)
	}
	if t := Cur(); t != nil {
		if len(t.RandQueue) > 0 {
			v := t.RandQueue[0]
			t.RandQueue = t.RandQueue[1:]
			return v, true
		}
		return next(&t.rng), true
	}
	s.mu.Lock()
	defer s.mu.Unlock()
	return next(&s.execRng), true
}

// ---------------------------------------------------------------------------------------------

// stateKey is the key of the global state up to reordering of independent steps.
func (s *Sched) stateKey() uint64 {
	hs := make([]uint64, 0, len(s.threads))
	for _, t := range s.threads {
		h := t.H
		if t.finished {
			h = mix(h, 0xdead, 7)
		}
		hs = append(hs, h)
	}
	sort.Slice(hs, func(i, j int) bool { return hs[i] < hs[j] })
	k := uint64(len(hs))
	for _, h := range hs {
		k = mix(k, h, 11)
	}
	if s.running != nil && !s.running.finished {
		k = mix(k, s.running.H, 13)
	}
	return k
}

func (s *Sched) describeThreads() string {
	var b strings.Builder
	for _, t := range s.threads {
		st := "running/blocked-unhooked"
		switch {
		case t.finished:
			st = "finished"
		case t.parked:
			st = "parked before " + t.pending.Kind
			if t.pending.Enabled != nil && !t.pending.Enabled() {
				st += " (disabled)"
			}
		}
		fmt.Fprintf(&b, "T%d %s: %s\n", t.ID, t.Name, st)
	}
	return b.String()
}
