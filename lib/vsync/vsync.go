// Package vsync replaces package sync in instrumented builds. Every operation of a managed thread
// (see vsched) starts with a scheduling point; blocking is modelled (a thread whose operation is
// not enabled is simply not scheduled). Unmanaged goroutines get plain blocking implementations
// whose waits are channel based, hence "durably blocked" for testing/synctest.
package vsync

import (
	"sync"

	"github.com/cockroachdb/pebble/internal/verif/vsched"
)

// Locker mirrors sync.Locker.
type Locker = sync.Locker

const (
	cLock = iota + 1
	cUnlock
	cRLock
	cRUnlock
	cWgAdd
	cWgWait
	cCondWait
	cCondSignal
	cOnce
	cMap
)

// Mutex replaces sync.Mutex.
type Mutex struct {
	meta sync.Mutex
	held bool
	ch   chan struct{}
	h    uint64
}

func (m *Mutex) free() bool {
	m.meta.Lock()
	f := !m.held
	m.meta.Unlock()
	return f
}

func (m *Mutex) Lock() {
	if t := vsched.Cur(); t != nil {
		for {
			t.Point(&vsched.Op{Kind: "Mutex.Lock", Enabled: m.free})
			m.meta.Lock()
			if !m.held {
				m.held = true
				t.Acq(&m.h, cLock)
				m.meta.Unlock()
				return
			}
			m.meta.Unlock()
		}
	}
	for {
		m.meta.Lock()
		if !m.held {
			m.held = true
			m.meta.Unlock()
			return
		}
		if m.ch == nil {
			m.ch = make(chan struct{})
		}
		ch := m.ch
		m.meta.Unlock()
		<-ch
	}
}

func (m *Mutex) TryLock() bool {
	t := vsched.Cur()
	if t != nil {
		t.Point(&vsched.Op{Kind: "Mutex.TryLock"})
	}
	m.meta.Lock()
	defer m.meta.Unlock()
	if m.held {
		if t != nil {
			t.Load(&m.h, cLock)
		}
		return false
	}
	m.held = true
	if t != nil {
		t.Acq(&m.h, cLock)
	}
	return true
}

func (m *Mutex) Unlock() {
	t := vsched.Cur()
	if t != nil {
		t.Point(&vsched.Op{Kind: "Mutex.Unlock"})
	}
	m.meta.Lock()
	if !m.held {
		m.meta.Unlock()
		panic("vsync: unlock of unlocked mutex")
	}
	m.held = false
	if t != nil {
		t.Acq(&m.h, cUnlock)
	}
	ch := m.ch
	m.ch = nil
	m.meta.Unlock()
	if ch != nil {
		close(ch)
	}
}

// RWMutex replaces sync.RWMutex (no writer preference is modelled: a reader may enter while a
// writer waits, which real Go also permits when the reader arrives first).
type RWMutex struct {
	meta    sync.Mutex
	writer  bool
	readers int
	ch      chan struct{}
	h       uint64
}

func (m *RWMutex) wake() {
	ch := m.ch
	m.ch = nil
	if ch != nil {
		close(ch)
	}
}

func (m *RWMutex) waitCh() chan struct{} {
	if m.ch == nil {
		m.ch = make(chan struct{})
	}
	return m.ch
}

func (m *RWMutex) Lock() {
	if t := vsched.Cur(); t != nil {
		for {
			t.Point(&vsched.Op{Kind: "RWMutex.Lock", Enabled: func() bool {
				m.meta.Lock()
				defer m.meta.Unlock()
				return !m.writer && m.readers == 0
			}})
			m.meta.Lock()
			if !m.writer && m.readers == 0 {
				m.writer = true
				t.Acq(&m.h, cLock)
				m.meta.Unlock()
				return
			}
			m.meta.Unlock()
		}
	}
	for {
		m.meta.Lock()
		if !m.writer && m.readers == 0 {
			m.writer = true
			m.meta.Unlock()
			return
		}
		ch := m.waitCh()
		m.meta.Unlock()
		<-ch
	}
}

func (m *RWMutex) TryLock() bool {
	t := vsched.Cur()
	if t != nil {
		t.Point(&vsched.Op{Kind: "RWMutex.TryLock"})
	}
	m.meta.Lock()
	defer m.meta.Unlock()
	if m.writer || m.readers > 0 {
		if t != nil {
			t.Load(&m.h, cLock)
		}
		return false
	}
	m.writer = true
	if t != nil {
		t.Acq(&m.h, cLock)
	}
	return true
}

func (m *RWMutex) Unlock() {
	t := vsched.Cur()
	if t != nil {
		t.Point(&vsched.Op{Kind: "RWMutex.Unlock"})
	}
	m.meta.Lock()
	if !m.writer {
		m.meta.Unlock()
		panic("vsync: Unlock of unlocked RWMutex")
	}
	m.writer = false
	if t != nil {
		t.Acq(&m.h, cUnlock)
	}
	ch := m.ch
	m.ch = nil
	m.meta.Unlock()
	if ch != nil {
		close(ch)
	}
}

func (m *RWMutex) RLock() {
	if t := vsched.Cur(); t != nil {
		for {
			t.Point(&vsched.Op{Kind: "RWMutex.RLock", Enabled: func() bool {
				m.meta.Lock()
				defer m.meta.Unlock()
				return !m.writer
			}})
			m.meta.Lock()
			if !m.writer {
				m.readers++
				t.Acq(&m.h, cRLock)
				m.meta.Unlock()
				return
			}
			m.meta.Unlock()
		}
	}
	for {
		m.meta.Lock()
		if !m.writer {
			m.readers++
			m.meta.Unlock()
			return
		}
		ch := m.waitCh()
		m.meta.Unlock()
		<-ch
	}
}

func (m *RWMutex) TryRLock() bool {
	t := vsched.Cur()
	if t != nil {
		t.Point(&vsched.Op{Kind: "RWMutex.TryRLock"})
	}
	m.meta.Lock()
	defer m.meta.Unlock()
	if m.writer {
		if t != nil {
			t.Load(&m.h, cRLock)
		}
		return false
	}
	m.readers++
	if t != nil {
		t.Acq(&m.h, cRLock)
	}
	return true
}

func (m *RWMutex) RUnlock() {
	t := vsched.Cur()
	if t != nil {
		t.Point(&vsched.Op{Kind: "RWMutex.RUnlock"})
	}
	m.meta.Lock()
	if m.readers <= 0 {
		m.meta.Unlock()
		panic("vsync: RUnlock of unlocked RWMutex")
	}
	m.readers--
	if t != nil {
		t.Acq(&m.h, cRUnlock)
	}
	var ch chan struct{}
	if m.readers == 0 {
		ch = m.ch
		m.ch = nil
	}
	m.meta.Unlock()
	if ch != nil {
		close(ch)
	}
}

type rlocker RWMutex

func (r *rlocker) Lock()   { (*RWMutex)(r).RLock() }
func (r *rlocker) Unlock() { (*RWMutex)(r).RUnlock() }

func (m *RWMutex) RLocker() Locker { return (*rlocker)(m) }

// WaitGroup replaces sync.WaitGroup.
type WaitGroup struct {
	meta sync.Mutex
	n    int
	ch   chan struct{}
	h    uint64
	// onZero, when set by a harness (SetOnZero), runs on the thread whose Add/Done brings the
	// counter to zero, at that very step and inside an atomic section: an oracle for "at the moment
	// of the acknowledgement ..." that needs no extra thread (hence no extra schedules).
	onZero func()
}

// SetOnZero installs fn as the oracle run at the step that brings w's counter to zero.
func SetOnZero(w *WaitGroup, fn func()) { w.onZero = fn }

func (w *WaitGroup) Add(delta int) {
	t := vsched.Cur()
	if t != nil {
		t.Point(&vsched.Op{Kind: "WaitGroup.Add"})
	}
	w.meta.Lock()
	w.n += delta
	if w.n < 0 {
		w.meta.Unlock()
		panic("vsync: negative WaitGroup counter")
	}
	if t != nil {
		t.Acq(&w.h, cWgAdd)
	}
	var ch chan struct{}
	var hook func()
	if w.n == 0 {
		ch = w.ch
		w.ch = nil
		hook = w.onZero
	}
	w.meta.Unlock()
	if hook != nil && t != nil {
		t.BeginAtomic()
		hook()
		t.EndAtomic()
	}
	if ch != nil {
		close(ch)
	}
}

func (w *WaitGroup) Done() { w.Add(-1) }

func (w *WaitGroup) Wait() {
	if t := vsched.Cur(); t != nil {
		t.Point(&vsched.Op{Kind: "WaitGroup.Wait", Enabled: func() bool {
			w.meta.Lock()
			defer w.meta.Unlock()
			return w.n == 0
		}})
		w.meta.Lock()
		t.Acq(&w.h, cWgWait)
		w.meta.Unlock()
		return
	}
	for {
		w.meta.Lock()
		if w.n == 0 {
			w.meta.Unlock()
			return
		}
		if w.ch == nil {
			w.ch = make(chan struct{})
		}
		ch := w.ch
		w.meta.Unlock()
		<-ch
	}
}

// Go mirrors WaitGroup.Go (Go 1.25).
func (w *WaitGroup) Go(f func()) {
	w.Add(1)
	vsched.Go(func() {
		defer w.Done()
		f()
	})
}

// Cond replaces sync.Cond. Waiters queue in FIFO order like the runtime's ticket list.
type Cond struct {
	L    Locker
	meta sync.Mutex
	q    []*waiter
	h    uint64
}

type waiter struct {
	notified bool
	ch       chan struct{} // unmanaged waiters block here
}

func NewCond(l Locker) *Cond { return &Cond{L: l} }

func (c *Cond) Wait() {
	w := &waiter{}
	if t := vsched.Cur(); t != nil {
		t.Point(&vsched.Op{Kind: "Cond.Wait"})
		c.meta.Lock()
		c.q = append(c.q, w)
		t.Acq(&c.h, cCondWait)
		c.meta.Unlock()
		c.L.Unlock()
		t.Point(&vsched.Op{Kind: "Cond.Wake", Enabled: func() bool {
			c.meta.Lock()
			defer c.meta.Unlock()
			return w.notified
		}})
		c.meta.Lock()
		t.Acq(&c.h, cCondWait)
		c.meta.Unlock()
		c.L.Lock()
		return
	}
	w.ch = make(chan struct{})
	c.meta.Lock()
	c.q = append(c.q, w)
	c.meta.Unlock()
	c.L.Unlock()
	<-w.ch
	c.L.Lock()
}

func (c *Cond) Signal() {
	t := vsched.Cur()
	if t != nil {
		t.Point(&vsched.Op{Kind: "Cond.Signal"})
	}
	c.meta.Lock()
	if t != nil {
		t.Acq(&c.h, cCondSignal)
	}
	if len(c.q) > 0 {
		w := c.q[0]
		c.q = c.q[1:]
		w.notified = true
		if w.ch != nil {
			close(w.ch)
		}
	}
	c.meta.Unlock()
}

func (c *Cond) Broadcast() {
	t := vsched.Cur()
	if t != nil {
		t.Point(&vsched.Op{Kind: "Cond.Broadcast"})
	}
	c.meta.Lock()
	if t != nil {
		t.Acq(&c.h, cCondSignal)
	}
	for _, w := range c.q {
		w.notified = true
		if w.ch != nil {
			close(w.ch)
		}
	}
	c.q = nil
	c.meta.Unlock()
}

// Once replaces sync.Once.
type Once struct {
	m    Mutex
	done bool
}

func (o *Once) Do(f func()) {
	o.m.Lock()
	defer o.m.Unlock()
	if !o.done {
		defer func() { o.done = true }()
		f()
	}
}

func OnceFunc(f func()) func() {
	var o Once
	return func() { o.Do(f) }
}

func OnceValue[T any](f func() T) func() T {
	var o Once
	var v T
	return func() T {
		o.Do(func() { v = f() })
		return v
	}
}

func OnceValues[T1, T2 any](f func() (T1, T2)) func() (T1, T2) {
	var o Once
	var v1 T1
	var v2 T2
	return func() (T1, T2) {
		o.Do(func() { v1, v2 = f() })
		return v1, v2
	}
}

// Pool replaces sync.Pool and never pools: pooled objects would carry state (and channels) from one
// execution into the next and make the step sequence depend on history.
type Pool struct {
	New func() any
}

func (p *Pool) Get() any {
	if p.New != nil {
		return p.New()
	}
	return nil
}

func (p *Pool) Put(any) {}

// Map replaces sync.Map: the real map behind a scheduling point per operation.
type Map struct {
	m sync.Map
	h uint64
}

func (m *Map) pt(kind string) {
	if t := vsched.Cur(); t != nil {
		t.Point(&vsched.Op{Kind: kind})
		t.Acq(&m.h, cMap)
	}
}

func (m *Map) Load(k any) (any, bool) { m.pt("Map.Load"); return m.m.Load(k) }
func (m *Map) Store(k, v any)         { m.pt("Map.Store"); m.m.Store(k, v) }
func (m *Map) LoadOrStore(k, v any) (any, bool) {
	m.pt("Map.LoadOrStore")
	return m.m.LoadOrStore(k, v)
}
func (m *Map) LoadAndDelete(k any) (any, bool) {
	m.pt("Map.LoadAndDelete")
	return m.m.LoadAndDelete(k)
}
func (m *Map) Delete(k any)              { m.pt("Map.Delete"); m.m.Delete(k) }
func (m *Map) Swap(k, v any) (any, bool) { m.pt("Map.Swap"); return m.m.Swap(k, v) }
func (m *Map) CompareAndSwap(k, o, n any) bool {
	m.pt("Map.CompareAndSwap")
	return m.m.CompareAndSwap(k, o, n)
}
func (m *Map) CompareAndDelete(k, o any) bool {
	m.pt("Map.CompareAndDelete")
	return m.m.CompareAndDelete(k, o)
}
func (m *Map) Range(f func(k, v any) bool) { m.pt("Map.Range"); m.m.Range(f) }
func (m *Map) Clear()                      { m.pt("Map.Clear"); m.m.Clear() }
