// Package hx holds the operation alphabet, the sequential reference model and the executor that
// applies the same operation to a real pebble.DB, shared by the history (engine A) and crash
// (engine B) harnesses.
package hx

import (
	"bytes"
	"fmt"
	"sort"
	"strings"

	"github.com/cockroachdb/pebble/internal/testkeys"
)

// Op is one symbol of a history. Values that are empty are filled in by the executor with
// "v<step>" so that a stale value is recognisable.
type Op struct {
	K    string `json:"k"` // set del delsized sdel merge delrange logdata rkset rkunset rkdel batch ingest ingestexcise excise flush compact
	Key  string `json:"key,omitempty"`
	End  string `json:"end,omitempty"`
	Suf  string `json:"suf,omitempty"`
	Val  string `json:"val,omitempty"`
	Sync bool   `json:"sync,omitempty"`
	Big  bool   `json:"big,omitempty"` // pad a batch beyond the large-batch threshold
	Pad  int    `json:"pad,omitempty"` // pad a batch with a value of this many bytes (> 4096) on PadKey
	N    int    `json:"n,omitempty"`
	Sub  []Op   `json:"sub,omitempty"`
}

func (o Op) String() string {
	var b strings.Builder
	b.WriteString(o.K)
	if o.Key != "" {
		b.WriteString(" " + o.Key)
	}
	if o.End != "" {
		b.WriteString("-" + o.End)
	}
	if o.Suf != "" {
		b.WriteString(o.Suf)
	}
	if o.Val != "" {
		b.WriteString("=" + o.Val)
	}
	if o.Sync {
		b.WriteString(" sync")
	}
	if o.Big {
		b.WriteString(" big")
	}
	if o.Pad != 0 {
		fmt.Fprintf(&b, " pad=%d", o.Pad)
	}
	if o.N != 0 {
		fmt.Fprintf(&b, " n=%d", o.N)
	}
	if len(o.Sub) > 0 {
		b.WriteString("{")
		for i, s := range o.Sub {
			if i > 0 {
				b.WriteString("; ")
			}
			b.WriteString(s.String())
		}
		b.WriteString("}")
	}
	return b.String()
}

// HistString renders a history on one line.
func HistString(h []Op) string {
	s := make([]string, len(h))
	for i := range h {
		s[i] = h[i].String()
	}
	return strings.Join(s, " | ")
}

// Cmp is the key order used by the model: the testkeys order (prefix ascending, then suffix
// descending numerically), which coincides with bytewise order on suffix-less keys.
func Cmp(a, b string) int { return testkeys.Comparer.Compare([]byte(a), []byte(b)) }

// Model is the sequential reference: a map for points and, for range keys, a map per elementary
// interval of a fixed sorted boundary list.
type Model struct {
	Pts    map[string]string
	Bounds []string            // sorted boundaries; interval i = [Bounds[i],Bounds[i+1])
	RK     []map[string]string // per interval: suffix -> value
	// sd tracks, per key, the write history since its last deletion for the SingleDelete
	// contract guard: 0 none, 1 exactly one Set, 2 anything else.
	sd map[string]int
}

// NewModel creates an empty model whose range-key boundaries are the given keys (all range-key
// and excise endpoints used by the alphabet must be among them).
func NewModel(bounds ...string) *Model {
	b := append([]string(nil), bounds...)
	sort.Slice(b, func(i, j int) bool { return Cmp(b[i], b[j]) < 0 })
	m := &Model{Pts: map[string]string{}, Bounds: b, sd: map[string]int{}}
	if len(b) > 1 {
		m.RK = make([]map[string]string, len(b)-1)
	}
	return m
}

func (m *Model) Clone() *Model {
	c := &Model{Pts: make(map[string]string, len(m.Pts)), Bounds: m.Bounds, sd: make(map[string]int, len(m.sd))}
	for k, v := range m.Pts {
		c.Pts[k] = v
	}
	for k, v := range m.sd {
		c.sd[k] = v
	}
	c.RK = make([]map[string]string, len(m.RK))
	for i, r := range m.RK {
		if len(r) > 0 {
			c.RK[i] = make(map[string]string, len(r))
			for k, v := range r {
				c.RK[i][k] = v
			}
		}
	}
	return c
}

// CanSingleDelete reports whether SingleDelete(key) is inside its contract in this state.
func (m *Model) CanSingleDelete(key string) bool { return m.sd[key] == 1 }

func (m *Model) idx(key string) int {
	for i, b := range m.Bounds {
		if b == key {
			return i
		}
	}
	panic("hx: range endpoint " + key + " is not a model boundary")
}

func (m *Model) delPointsIn(start, end string) {
	for k := range m.Pts {
		if Cmp(k, start) >= 0 && Cmp(k, end) < 0 {
			delete(m.Pts, k)
		}
	}
	for k := range m.sd {
		if Cmp(k, start) >= 0 && Cmp(k, end) < 0 {
			m.sd[k] = 0
		}
	}
}

// Legal reports whether op may be generated in this state (contract guards live in the generator,
// not in the oracle).
func (m *Model) Legal(op Op) bool {
	switch op.K {
	case "sdel":
		return m.CanSingleDelete(op.Key)
	case "batch":
		// evaluate guards sequentially on a scratch copy
		c := m
		cloned := false
		for _, s := range op.Sub {
			if s.K == "sdel" {
				if !c.CanSingleDelete(s.Key) {
					return false
				}
			}
			if !cloned {
				c = m.Clone()
				cloned = true
			}
			c.Apply(s, "")
		}
	}
	return true
}

// Apply applies op. defVal is the value used when op.Val is empty.
func (m *Model) Apply(op Op, defVal string) {
	val := op.Val
	if val == "" {
		val = defVal
	}
	switch op.K {
	case "set":
		m.Pts[op.Key] = val
		if m.sd[op.Key] == 0 {
			m.sd[op.Key] = 1
		} else {
			m.sd[op.Key] = 2
		}
	case "del", "delsized", "sdel":
		delete(m.Pts, op.Key)
		m.sd[op.Key] = 0
	case "merge":
		m.Pts[op.Key] = m.Pts[op.Key] + val
		m.sd[op.Key] = 2
	case "delrange":
		m.delPointsIn(op.Key, op.End)
	case "logdata", "flush", "compact", "nop", "hold", "release":
	case "rkset":
		for i := m.idx(op.Key); i < m.idx(op.End); i++ {
			if m.RK[i] == nil {
				m.RK[i] = map[string]string{}
			}
			m.RK[i][op.Suf] = val
		}
	case "rkunset":
		for i := m.idx(op.Key); i < m.idx(op.End); i++ {
			delete(m.RK[i], op.Suf)
		}
	case "rkdel":
		for i := m.idx(op.Key); i < m.idx(op.End); i++ {
			m.RK[i] = nil
		}
	case "batch":
		for j, s := range op.Sub {
			m.Apply(s, fmt.Sprintf("%s.%d", defVal, j))
		}
		if op.Big || op.Pad > 0 {
			m.Pts[PadKey] = "PAD"
		}
	case "ingest", "ingestexcise":
		if op.K == "ingestexcise" {
			m.excise(op.Key, op.End)
		}
		// All keys of an ingested table share one sequence number; a range deletion does not cover
		// points of the same table, so deletions apply first.
		for j, s := range op.Sub {
			if s.K == "delrange" || s.K == "rkdel" || s.K == "rkunset" {
				m.Apply(s, fmt.Sprintf("%s.%d", defVal, j))
			}
		}
		for j, s := range op.Sub {
			if !(s.K == "delrange" || s.K == "rkdel" || s.K == "rkunset") {
				m.Apply(s, fmt.Sprintf("%s.%d", defVal, j))
				if s.K == "set" {
					m.sd[s.Key] = 2 // an ingested key is outside the SingleDelete contract
				}
			}
		}
	case "excise":
		m.excise(op.Key, op.End)
	default:
		panic("hx: model cannot apply " + op.K)
	}
}

func (m *Model) excise(start, end string) {
	m.delPointsIn(start, end)
	if len(m.RK) > 0 {
		for i := m.idx(start); i < m.idx(end); i++ {
			m.RK[i] = nil
		}
	}
}

// KV is one visible point.
type KV struct{ K, V string }

// Points returns the visible points in key order.
func (m *Model) Points() []KV {
	out := make([]KV, 0, len(m.Pts))
	for k, v := range m.Pts {
		out = append(out, KV{k, v})
	}
	sort.Slice(out, func(i, j int) bool { return Cmp(out[i].K, out[j].K) < 0 })
	return out
}

// Span is a maximal run of adjacent elementary intervals with the same non-empty key set.
type Span struct {
	Start, End string
	Keys       []KV // suffix,value sorted by suffix (testkeys order: larger numeric suffix first)
}

func rkString(r map[string]string) string {
	ks := make([]string, 0, len(r))
	for k := range r {
		ks = append(ks, k)
	}
	sort.Slice(ks, func(i, j int) bool {
		return testkeys.Comparer.ComparePointSuffixes([]byte(ks[i]), []byte(ks[j])) < 0
	})
	var b strings.Builder
	for _, k := range ks {
		fmt.Fprintf(&b, "%s=%s,", k, r[k])
	}
	return b.String()
}

// Spans returns the defragmented range-key spans clipped to [lo,hi) ("" = unbounded); lo and hi,
// when set, must be model boundaries.
func (m *Model) Spans(lo, hi string) []Span {
	var out []Span
	for i := 0; i < len(m.RK); i++ {
		if len(m.RK[i]) == 0 {
			continue
		}
		s, e := m.Bounds[i], m.Bounds[i+1]
		if lo != "" && Cmp(e, lo) <= 0 {
			continue
		}
		if hi != "" && Cmp(s, hi) >= 0 {
			continue
		}
		if lo != "" && Cmp(s, lo) < 0 {
			s = lo
		}
		if hi != "" && Cmp(e, hi) > 0 {
			e = hi
		}
		str := rkString(m.RK[i])
		if n := len(out); n > 0 && out[n-1].End == s && rkString(kvMap(out[n-1].Keys)) == str {
			out[n-1].End = e
			continue
		}
		sp := Span{Start: s, End: e}
		ks := make([]string, 0)
		for k := range m.RK[i] {
			ks = append(ks, k)
		}
		sort.Slice(ks, func(a, b int) bool {
			return testkeys.Comparer.ComparePointSuffixes([]byte(ks[a]), []byte(ks[b])) < 0
		})
		for _, k := range ks {
			sp.Keys = append(sp.Keys, KV{k, m.RK[i][k]})
		}
		out = append(out, sp)
	}
	return out
}

func kvMap(kv []KV) map[string]string {
	r := map[string]string{}
	for _, e := range kv {
		r[e.K] = e.V
	}
	return r
}

// String is a canonical rendering of the whole model state.
func (m *Model) String() string {
	var b bytes.Buffer
	for _, p := range m.Points() {
		fmt.Fprintf(&b, "%s=%s ", p.K, p.V)
	}
	for _, s := range m.Spans("", "") {
		fmt.Fprintf(&b, "[%s,%s){%s} ", s.Start, s.End, rkString(kvMap(s.Keys)))
	}
	return b.String()
}
