package hx

import (
	"bytes"
	"context"
	"fmt"
	"sort"
	"strings"

	"github.com/cockroachdb/errors"
	"github.com/cockroachdb/pebble"
	"github.com/cockroachdb/pebble/sstable/tablefilters/bloom"
	"github.com/cockroachdb/pebble/internal/testkeys"
	"github.com/cockroachdb/pebble/objstorage/objstorageprovider"
	"github.com/cockroachdb/pebble/sstable"
	"github.com/cockroachdb/pebble/vfs"
)

// Config is one DB configuration; the zero value is the base configuration.
type Config struct {
	Name           string `json:"name"`
	FMV            int    `json:"fmv,omitempty"`           // 0 = newest
	MemTableSize   int    `json:"memtable,omitempty"`      // 0 = 256 KiB
	ValSep         bool   `json:"valsep,omitempty"`        // value separation with MinimumSize 3
	DisableWAL     bool   `json:"nowal,omitempty"`
	TinyFiles      bool   `json:"tinyfiles,omitempty"`     // target file size 1: every key in its own file
	NoBloom        bool   `json:"nobloom,omitempty"`
	DefaultCmp     bool   `json:"defaultcmp,omitempty"`    // bytewise comparer instead of testkeys
	AutoCompact    bool   `json:"autocompact,omitempty"`   // automatic compactions on, thresholds at 1
	TinyManifest   bool   `json:"tinymanifest,omitempty"`  // rotate the MANIFEST on every edit
	L0Sublevels    bool   `json:"flushsplit,omitempty"`    // tiny FlushSplitBytes
	BlockSize      int    `json:"blocksize,omitempty"`
	WALFailover    bool   `json:"walfailover,omitempty"`
	TableStats     bool   `json:"tablestats,omitempty"` // table statistics collection on (enables delete-only / elision-only compactions)
	AutoL0         bool   `json:"autol0,omitempty"`      // automatic compactions on, Pebble's default thresholds except L0CompactionThreshold = 1
	AutoDefault    bool   `json:"autodefault,omitempty"` // automatic compactions on with Pebble's DEFAULT thresholds (no forced L0 compaction)
	TinyLBase      bool   `json:"tinylbase,omitempty"`   // LBaseMaxBytes=1 with MANUAL compactions only: data comes to rest in intermediate levels
	DelOnlyExcise  bool   `json:"delonlyexcise,omitempty"` // delete-only compactions may excise the covered prefix/suffix of a table
	NoSyncOnClose  bool   `json:"nosynconclose,omitempty"` // Options.NoSyncOnClose
	DeepQueue      bool   `json:"deepqueue,omitempty"`     // MemTableStopWritesThreshold 1000: held flushes never stall writers
	SharedCaches   bool   `json:"sharedcaches,omitempty"` // the harness passes its own block cache and file cache (kept referenced across Close)
}

// Options builds pebble.Options for this configuration on fs.
func (c Config) Options(fs vfs.FS) *pebble.Options {
	o := &pebble.Options{
		FS:                          fs,
		Comparer:                    testkeys.Comparer,
		DisableAutomaticCompactions: !c.Auto(),
		FormatMajorVersion:          pebble.FormatNewest,
		MemTableSize:                256 << 10,
		L0CompactionThreshold:       l0Threshold(c),
		L0StopWritesThreshold:       100000,
		DisableWAL:                  c.DisableWAL,
		CompactionConcurrencyRange:  func() (int, int) { return 1, 1 },
		CompactionScheduler: func() pebble.CompactionScheduler {
			return pebble.NewConcurrencyLimitSchedulerWithNoPeriodicGrantingForTest()
		},
		Logger: quietLogger{},
	}
	o.DisableTableStats = !c.TableStats
	if c.DefaultCmp {
		o.Comparer = pebble.DefaultComparer
	}
	if c.FMV != 0 {
		o.FormatMajorVersion = pebble.FormatMajorVersion(c.FMV)
	}
	if c.MemTableSize != 0 {
		o.MemTableSize = uint64(c.MemTableSize)
	}
	if c.AutoCompact {
		o.L0CompactionThreshold = 1
		o.L0CompactionFileThreshold = 1
		o.LBaseMaxBytes = 1
	}
	if c.TinyManifest {
		o.MaxManifestFileSize = 1
	}
	if c.TinyLBase {
		o.LBaseMaxBytes = 1
	}
	if c.DeepQueue {
		o.MemTableStopWritesThreshold = 1000
	}
	if c.NoSyncOnClose {
		o.NoSyncOnClose = true
	}
	if c.DelOnlyExcise {
		o.EnableDeleteOnlyCompactionExcises = func() bool { return true }
	}
	if c.L0Sublevels {
		o.FlushSplitBytes = 1
	}
	if !c.NoBloom {
		o.Levels[0].TableFilterPolicy = func() pebble.TableFilterPolicy { return bloom.FilterPolicy(10) }
	}
	o.EnsureDefaults()
	for i := range o.Levels {
		if c.TinyFiles {
			o.TargetFileSizes[i] = 1
		}
		if c.NoBloom {
			o.Levels[i].TableFilterPolicy = func() pebble.TableFilterPolicy { return pebble.NoFilterPolicy }
		}
		if c.BlockSize != 0 {
			o.Levels[i].BlockSize = c.BlockSize
			o.Levels[i].IndexBlockSize = c.BlockSize
		}
	}
	if c.ValSep {
		o.ValueSeparationPolicy = func() pebble.ValueSeparationPolicy {
			return pebble.ValueSeparationPolicy{
				Enabled:                  true,
				MinimumSize:              3,
				MinimumMVCCGarbageSize:   1,
				MaxBlobReferenceDepth:    2,
				RewriteMinimumAge:        0,
				GarbageRatioLowPriority:  0.1,
				GarbageRatioHighPriority: 0.2,
			}
		}
	}
	return o
}

type quietLogger struct{}

func (quietLogger) Infof(string, ...interface{})  {}
func (quietLogger) Errorf(string, ...interface{}) {}
func (quietLogger) Fatalf(f string, a ...interface{}) {
	panic(fmt.Sprintf("pebble Fatalf: "+f, a...))
}

// X executes operations against a real DB.
type X struct {
	D       *pebble.DB
	FS      vfs.FS
	Opts    *pebble.Options
	Dir     string
	ingestN int
	held    bool
	prebuilt map[int]string
}

// Prebuild builds the table of ingest operation number step ahead of time (a scheduler harness
// does this outside the explored threads: writing the table is not what is being interleaved).
func (x *X) Prebuild(step int, op Op) error {
	p, err := x.BuildSST(op, fmt.Sprintf("v%d", step))
	if err != nil {
		return err
	}
	if x.prebuilt == nil {
		x.prebuilt = map[int]string{}
	}
	x.prebuilt[step] = p
	return nil
}

func (x *X) sstFor(step int, op Op, defVal string) (string, error) {
	if p, ok := x.prebuilt[step]; ok {
		return p, nil
	}
	return x.BuildSST(op, defVal)
}

// Hold holds back flushes (DB.VerifHoldFlushes) until Release; Apply releases by itself before an
// operation that waits for a flush.
func (x *X) Hold() {
	if !x.held {
		x.D.VerifHoldFlushes()
		x.held = true
	}
}

// Release lets held flushes go and waits until the DB is idle.
func (x *X) Release() {
	if x.held {
		x.D.VerifReleaseFlushes()
		x.held = false
		x.D.VerifWaitIdle()
	}
}

// CloseDB releases held flushes (Close waits for them) and closes the DB.
func (x *X) CloseDB() error {
	x.Release()
	return x.D.Close()
}

// Open opens (creating if needed) a DB in dir on fs.
func Open(fs vfs.FS, dir string, cfg Config) (*X, error) {
	o := cfg.Options(fs)
	d, err := pebble.Open(dir, o)
	if err != nil {
		return nil, err
	}
	return &X{D: d, FS: fs, Opts: o, Dir: dir}, nil
}

// OpenWith opens with caller-prepared options (o.FS must be set).
func OpenWith(dir string, o *pebble.Options) (*X, error) {
	d, err := pebble.Open(dir, o)
	if err != nil {
		return nil, err
	}
	return &X{D: d, FS: o.FS, Opts: o, Dir: dir}, nil
}

func wo(sync bool) *pebble.WriteOptions {
	if sync {
		return pebble.Sync
	}
	return pebble.NoSync
}

// Writer is the part of Batch/DB used to apply simple ops.
type Writer interface {
	Set(key, value []byte, o *pebble.WriteOptions) error
	Delete(key []byte, o *pebble.WriteOptions) error
	DeleteSized(key []byte, size uint32, o *pebble.WriteOptions) error
	SingleDelete(key []byte, o *pebble.WriteOptions) error
	Merge(key, value []byte, o *pebble.WriteOptions) error
	DeleteRange(start, end []byte, o *pebble.WriteOptions) error
	LogData(data []byte, o *pebble.WriteOptions) error
	RangeKeySet(start, end, suffix, value []byte, o *pebble.WriteOptions) error
	RangeKeyUnset(start, end, suffix []byte, o *pebble.WriteOptions) error
	RangeKeyDelete(start, end []byte, o *pebble.WriteOptions) error
}

// scribble overwrites argument buffers after a call has returned: the API does not retain its
// arguments, so a caller may reuse them at once; an implementation that aliases one (a queued
// flushable that remembers the caller's excise span) changes behaviour visibly.
func scribble(bufs ...[]byte) {
	for _, b := range bufs {
		for i := range b {
			b[i] = '~'
		}
	}
}

// ApplySimple applies a non-compound write op to w; the argument buffers are overwritten
// afterwards (see scribble).
func ApplySimple(w Writer, op Op, defVal string) (err error) {
	val := op.Val
	if val == "" {
		val = defVal
	}
	o := wo(op.Sync)
	k, e, sfx, v := []byte(op.Key), []byte(op.End), []byte(op.Suf), []byte(val)
	defer scribble(k, e, sfx, v)
	switch op.K {
	case "set":
		return w.Set(k, v, o)
	case "del":
		return w.Delete(k, o)
	case "delsized":
		return w.DeleteSized(k, uint32(op.N), o)
	case "sdel":
		return w.SingleDelete(k, o)
	case "merge":
		return w.Merge(k, v, o)
	case "delrange":
		return w.DeleteRange(k, e, o)
	case "logdata":
		return w.LogData(v, o)
	case "rkset":
		return w.RangeKeySet(k, e, sfx, v, o)
	case "rkunset":
		return w.RangeKeyUnset(k, e, sfx, o)
	case "rkdel":
		return w.RangeKeyDelete(k, e, o)
	}
	return errors.Newf("hx: not a simple op: %s", op.K)
}

// FillBatch adds the sub-operations of a batch op to b.
func (x *X) FillBatch(b *pebble.Batch, op Op, defVal string) error {
	for j, s := range op.Sub {
		if err := ApplySimple(b, s, fmt.Sprintf("%s.%d", defVal, j)); err != nil {
			return err
		}
	}
	if op.Big {
		// A batch takes the flushable (large batch) path when its MEMTABLE size reaches half the
		// memtable - LogData does not count towards that, so the padding is a real key with a big
		// value. Readers report big values as "PAD" (see Val), the model stores "PAD".
		pad := bytes.Repeat([]byte{'p'}, int(x.Opts.MemTableSize)/2+1024)
		if err := b.Set([]byte(PadKey), pad, nil); err != nil {
			return err
		}
	} else if op.Pad > 0 {
		// an ordinary (memtable) batch whose WAL record spans several 32 KiB blocks
		if err := b.Set([]byte(PadKey), bytes.Repeat([]byte{'p'}, op.Pad), nil); err != nil {
			return err
		}
	}
	return nil
}

// BuildSST writes the sub-operations of an ingest op into a new table file and returns its path.
func (x *X) BuildSST(op Op, defVal string) (string, error) {
	x.ingestN++
	x.FS.MkdirAll("ext", 0o755)
	path := x.FS.PathJoin("ext", fmt.Sprintf("ext-%d-%s.sst", x.ingestN, strings.ReplaceAll(defVal, ".", "_")))
	return path, BuildSSTAt(x.FS, path, x.Opts, x.D.TableFormat(), op, defVal)
}

// BuildSSTAt writes the sub-operations of op as a table at path.
func BuildSSTAt(fs vfs.FS, path string, opts *pebble.Options, tf sstable.TableFormat, op Op, defVal string) error {
	f, err := fs.Create(path, vfs.WriteCategoryUnspecified)
	if err != nil {
		return err
	}
	wopts := opts.MakeWriterOptions(0, tf)
	w := sstable.NewWriter(objstorageprovider.NewFileWritable(f), wopts)
	type ent struct {
		j int
		s Op
	}
	var pts, rds, rks []ent
	for j, s := range op.Sub {
		switch s.K {
		case "set", "del", "merge":
			pts = append(pts, ent{j, s})
		case "delrange":
			rds = append(rds, ent{j, s})
		case "rkset", "rkunset", "rkdel":
			rks = append(rks, ent{j, s})
		default:
			return errors.Newf("hx: cannot ingest %s", s.K)
		}
	}
	sort.SliceStable(pts, func(a, b int) bool { return Cmp(pts[a].s.Key, pts[b].s.Key) < 0 })
	sort.SliceStable(rds, func(a, b int) bool { return Cmp(rds[a].s.Key, rds[b].s.Key) < 0 })
	sort.SliceStable(rks, func(a, b int) bool { return Cmp(rks[a].s.Key, rks[b].s.Key) < 0 })
	val := func(e ent) []byte {
		if e.s.Val != "" {
			return []byte(e.s.Val)
		}
		return []byte(fmt.Sprintf("%s.%d", defVal, e.j))
	}
	for _, e := range pts {
		switch e.s.K {
		case "set":
			err = w.Set([]byte(e.s.Key), val(e))
		case "del":
			err = w.Delete([]byte(e.s.Key))
		case "merge":
			err = w.Merge([]byte(e.s.Key), val(e))
		}
		if err != nil {
			return err
		}
	}
	for _, e := range rds {
		if err = w.DeleteRange([]byte(e.s.Key), []byte(e.s.End)); err != nil {
			return err
		}
	}
	for _, e := range rks {
		switch e.s.K {
		case "rkset":
			err = w.RangeKeySet([]byte(e.s.Key), []byte(e.s.End), []byte(e.s.Suf), val(e))
		case "rkunset":
			err = w.RangeKeyUnset([]byte(e.s.Key), []byte(e.s.End), []byte(e.s.Suf))
		case "rkdel":
			err = w.RangeKeyDelete([]byte(e.s.Key), []byte(e.s.End))
		}
		if err != nil {
			return err
		}
	}
	return w.Close()
}

// Apply executes op number step against the DB.
func (x *X) Apply(step int, op Op) error {
	defVal := fmt.Sprintf("v%d", step)
	switch op.K {
	case "batch":
		b := x.D.NewBatch()
		if err := x.FillBatch(b, op, defVal); err != nil {
			return err
		}
		return x.D.Apply(b, wo(op.Sync))
	case "ingest":
		p, err := x.sstFor(step, op, defVal)
		if err != nil {
			return err
		}
		return x.D.Ingest(context.Background(), []string{p})
	case "ingestexcise":
		p, err := x.sstFor(step, op, defVal)
		if err != nil {
			return err
		}
		span := pebble.KeyRange{Start: []byte(op.Key), End: []byte(op.End)}
		defer scribble(span.Start, span.End)
		_, err = x.D.IngestAndExcise(context.Background(), []string{p}, nil, nil, span)
		return err
	case "excise":
		span := pebble.KeyRange{Start: []byte(op.Key), End: []byte(op.End)}
		defer scribble(span.Start, span.End)
		return x.D.Excise(context.Background(), span)
	case "hold":
		x.Hold()
		return nil
	case "release":
		x.Release()
		return nil
	case "flush":
		x.Release()
		return x.D.Flush()
	case "compact":
		x.Release()
		s, e := op.Key, op.End
		if s == "" {
			s, e = "a", "z"
		}
		sb, eb := []byte(s), []byte(e)
		defer scribble(sb, eb)
		return x.D.Compact(context.Background(), sb, eb, false)
	case "nop":
		return nil
	}
	return ApplySimple(x.D, op, defVal)
}

// ObservePoints reads the point state through r in three ways — Get of every universe key, a full
// forward scan, a full backward scan — and returns it; an error is returned if the three disagree
// with each other or an API call fails.
func ObservePoints(r pebble.Reader, universe []string) ([]KV, error) {
	it, err := r.NewIter(nil)
	if err != nil {
		return nil, err
	}
	var fwd, bwd []KV
	for v := it.First(); v; v = it.Next() {
		fwd = append(fwd, KV{string(it.Key()), Val(it.Value())})
	}
	if err := it.Error(); err != nil {
		it.Close()
		return nil, errors.Wrap(err, "forward scan")
	}
	for v := it.Last(); v; v = it.Prev() {
		bwd = append(bwd, KV{string(it.Key()), Val(it.Value())})
	}
	if err := it.Error(); err != nil {
		it.Close()
		return nil, errors.Wrap(err, "backward scan")
	}
	if err := it.Close(); err != nil {
		return nil, err
	}
	if len(fwd) != len(bwd) {
		return fwd, errors.Newf("forward scan %v and backward scan %v differ", fwd, bwd)
	}
	for i := range fwd {
		if fwd[i] != bwd[len(bwd)-1-i] {
			return fwd, errors.Newf("forward scan %v and backward scan %v differ", fwd, bwd)
		}
	}
	got := map[string]string{}
	for _, e := range fwd {
		got[e.K] = e.V
	}
	for _, k := range universe {
		v, c, err := r.Get([]byte(k))
		if err == pebble.ErrNotFound {
			if w, ok := got[k]; ok {
				return fwd, errors.Newf("Get(%s) not found but scan has %s=%s", k, k, w)
			}
			continue
		}
		if err != nil {
			return fwd, errors.Wrapf(err, "Get(%s)", k)
		}
		sv := Val(v)
		c.Close()
		if w, ok := got[k]; !ok || w != sv {
			return fwd, errors.Newf("Get(%s)=%s but scan has %q (present=%v)", k, sv, w, ok)
		}
	}
	return fwd, nil
}

// ObserveSpans scans range keys only (forward) and returns the spans as surfaced.
func ObserveSpans(r pebble.Reader, lo, hi string) ([]Span, error) {
	o := &pebble.IterOptions{KeyTypes: pebble.IterKeyTypeRangesOnly}
	if lo != "" {
		o.LowerBound = []byte(lo)
	}
	if hi != "" {
		o.UpperBound = []byte(hi)
	}
	it, err := r.NewIter(o)
	if err != nil {
		return nil, err
	}
	defer it.Close()
	var out []Span
	for v := it.First(); v; v = it.Next() {
		s, e := it.RangeBounds()
		sp := Span{Start: string(s), End: string(e)}
		for _, k := range it.RangeKeys() {
			sp.Keys = append(sp.Keys, KV{string(k.Suffix), string(k.Value)})
		}
		out = append(out, sp)
	}
	return out, it.Error()
}

// PointsString renders a point list.
func PointsString(p []KV) string {
	var b bytes.Buffer
	for _, e := range p {
		fmt.Fprintf(&b, "%s=%s ", e.K, e.V)
	}
	return b.String()
}

// SpansString renders a span list.
func SpansString(s []Span) string {
	var b bytes.Buffer
	for _, e := range s {
		fmt.Fprintf(&b, "[%s,%s){", e.Start, e.End)
		for _, k := range e.Keys {
			fmt.Fprintf(&b, "%s=%s,", k.K, k.V)
		}
		b.WriteString("} ")
	}
	return b.String()
}

// CompareLatest compares the DB's (or any reader's) visible state with the model; "" = equal.
func CompareLatest(r pebble.Reader, m *Model, universe []string, withRangeKeys bool) string {
	got, err := ObservePoints(r, universe)
	if err != nil {
		return "read error/inconsistency: " + err.Error()
	}
	if g, w := PointsString(got), PointsString(m.Points()); g != w {
		return fmt.Sprintf("points: got {%s} want {%s}", g, w)
	}
	if withRangeKeys {
		sp, err := ObserveSpans(r, "", "")
		if err != nil {
			return "range-key scan error: " + err.Error()
		}
		if g, w := SpansString(sp), SpansString(m.Spans("", "")); g != w {
			return fmt.Sprintf("range keys: got %s want %s", g, w)
		}
	}
	return ""
}

// Shape returns a short description of the LSM shape (files per level with bounds).
func (x *X) Shape() string {
	return x.D.DebugCurrentVersion().String()
}

// Supports reports whether the configuration's format major version allows op.
func (c Config) Supports(op Op) bool {
	if c.FMV == 0 {
		return true
	}
	switch op.K {
	case "delsized":
		return c.FMV >= 15
	case "excise", "ingestexcise":
		return c.FMV >= 18
	case "batch", "ingest":
		for _, s := range op.Sub {
			if !c.Supports(s) {
				return false
			}
		}
	}
	return true
}

func l0Threshold(c Config) int {
	if c.AutoDefault {
		return 4 // Pebble's default
	}
	if c.AutoL0 {
		return 1
	}
	return 1000
}

// Auto reports whether background compactions are enabled in this configuration.
func (c Config) Auto() bool { return c.AutoCompact || c.AutoDefault || c.AutoL0 }

// PadKey is the key a Big batch writes its padding value to; it sorts after every key and span
// the alphabets use.
const PadKey = "zzpad"

// Val renders a value for comparison with the model: padding values are reported as "PAD".
func Val(v []byte) string {
	if len(v) > 4096 {
		return "PAD"
	}
	return string(v)
}
