#!/usr/bin/env python3
"""Regenerates the table of DESIGN.md section 12.5 from the first line of every mutants/*.patch."""
import glob, os
V = os.path.dirname(os.path.dirname(os.path.abspath(__file__)))
rows = []
for p in sorted(glob.glob(os.path.join(V, "mutants", "*.patch"))):
    first = open(p, errors="replace").readline().strip()
    if first.startswith("#"):
        first = first.lstrip("# ").strip()
    else:
        first = "(no header)"
    rows.append("| `%s` | %s |" % (os.path.basename(p)[:-6], first.replace("|", "\\|")))
dp = os.path.join(V, "DESIGN.md")
s = open(dp).read()
a = s.index("| patch | what it breaks / verdict |")
b = s.index("### 12.6", a)
s = s[:a] + "| patch | what it breaks / verdict |\n|---|---|\n" + "\n".join(rows) + "\n\n" + s[b:]
open(dp, "w").write(s)
print(len(rows), "patches")
