#!/usr/bin/env python3
"""usage: tools/seedmeta.py <seed dir name> '<json with fields>'  -> writes /verif/seeded/<dir>/meta.json (verdict line of verify.log is added)"""
import json, os, sys
d = os.path.join("/verif/seeded", sys.argv[1])
m = json.loads(sys.argv[2])
log = os.path.join(d, "verify.log")
if os.path.exists(log):
    m["verified_in_scratch_worktree"] = open(log).read().strip().splitlines()[-1]
json.dump(m, open(os.path.join(d, "meta.json"), "w"), indent=1)
print(open(os.path.join(d, "meta.json")).read()[:400])
