#!/bin/bash
# usage: tools/verify_seed.sh <seed dir under /verif/seeded> <worktree> <demo package dir rel to repo> <demo test regexp> <packages to test...>
# Confirms in a scratch worktree: builds with the change, the existing tests of the given packages pass
# with the change, the demonstration fails with the change and passes without it.
S=/verif/seeded/$1; W=$2; PKG=$3; RUN=$4; shift 4
LOG=$S/verify.log
{
set -x
cd $W || exit 1
git checkout -q -- . ; git clean -fdq -e out
git apply $S/patch.diff || { echo "VERDICT patch-does-not-apply"; exit 1; }
go build ./... || { echo "VERDICT build-fails"; exit 1; }
go test -count=1 "$@" 2>&1 | tail -15
EXISTING=${PIPESTATUS[0]}
cp $S/demo_test.go $PKG/zz_seed_demo_test.go
go test -count=1 -run "$RUN" ./$PKG 2>&1 | tail -15
WITH=${PIPESTATUS[0]}
git apply -R $S/patch.diff
go test -count=1 -run "$RUN" ./$PKG 2>&1 | tail -8
WITHOUT=${PIPESTATUS[0]}
rm -f $PKG/zz_seed_demo_test.go
git checkout -q -- .
set +x
echo "VERDICT existing_tests_exit=$EXISTING demo_with_change_exit=$WITH demo_without_change_exit=$WITHOUT"
} > $LOG 2>&1
tail -1 $LOG
