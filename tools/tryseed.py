#!/usr/bin/env python3
"""Runs checks against a seeded change WITHOUT touching /repo: the patch is applied to copies of the
affected files, which are supplied through the build overlay.
usage: tools/tryseed.py <patch.diff> <check id> [<check id> ...] [--tier quick|thorough]"""
import json, os, re, shutil, subprocess, sys, tempfile
V = os.path.dirname(os.path.dirname(os.path.abspath(__file__)))
args = sys.argv[1:]
tier = "quick"
if "--tier" in args:
    i = args.index("--tier"); tier = args[i + 1]; del args[i:i + 2]
patch, ids = os.path.abspath(args[0]), args[1:]
work = tempfile.mkdtemp(prefix="tryseed-", dir=os.path.join(V, "build"))
files = []
for line in open(patch, errors="replace"):
    m = re.match(r"^\+\+\+ (?:b/)?(\S+)", line)
    if m and m.group(1) != "/dev/null":
        files.append(m.group(1))
ov = {}
for f in files:
    dst = os.path.join(work, f)
    os.makedirs(os.path.dirname(dst), exist_ok=True)
    if os.path.exists(os.path.join("/repo", f)):
        shutil.copy(os.path.join("/repo", f), dst)
    ov[f] = dst
r = subprocess.run(["patch", "-p1", "-s", "-d", work, "-i", patch], capture_output=True, text=True)
if r.returncode != 0:
    print("patch does not apply:", r.stdout, r.stderr); sys.exit(2)
ovp = os.path.join(work, "ov.json")
json.dump(ov, open(ovp, "w"))
env = dict(os.environ, VERIF_EXTRA_OVERLAY=ovp, VERIF_REPLAYS=os.path.join(work, "replays"), VERIF_EVIDENCE_DIR=os.path.join(work, "evidence"))
res = {}
for cid in ids:
    r = subprocess.run([os.path.join(V, "vx"), "check", cid, "--tier", tier], env=env, capture_output=True, text=True, cwd=V)
    out = r.stdout + r.stderr
    classes = sorted(set(re.findall(r"class=(\S+)", out)))
    res[cid] = {"exit": r.returncode, "classes": classes[:8]}
    print(cid, "exit", r.returncode, classes[:5], flush=True)
    for l in out.splitlines():
        if l.startswith("VIOLATION") or l.startswith("check ") or l.startswith("BUILD-FAILED"):
            print("   ", l[:300])
print(json.dumps(res))
shutil.rmtree(work, ignore_errors=True)
