#!/bin/bash
# usage: tools/savemut.sh <ID-name> <path relative to /repo> <mutated copy> "<comment>"
set -e
out=/verif/mutants/$1.patch
{ echo "# $4"; diff -u --label "a/$2" --label "b/$2" "/repo/$2" "$3" || true; } > "$out"
echo "wrote $out"
