#!/usr/bin/env python3
"""Regenerates /verif/MANIFEST.json from checks.json (claimed checks) and na.json (reasons for the
properties not claimed). Run after editing either."""
import json, os
V = os.path.dirname(os.path.dirname(os.path.abspath(__file__)))
props = [json.loads(l)["id"] for l in open(os.path.join(V, "properties.jsonl"))]
import glob
checks = {}
for p in sorted(glob.glob(os.path.join(V, "checks.d", "*.json"))):
    checks.update(json.load(open(p)))
na = json.load(open(os.path.join(V, "na.json"))) if os.path.exists(os.path.join(V, "na.json")) else {}
base = json.load(open("/root/.vp/BASELINE.json")) if os.path.exists("/root/.vp/BASELINE.json") else None
old = json.load(open(os.path.join(V, "MANIFEST.json")))
m = {
    "version": 1,
    "setup_cmd": "./vx setup",
    "hooks": {
        "guard": "verif",
        "enable": "go test -c -tags verif -overlay /verif/build/overlay-*.json (hooks, exported test entry points and the sync/atomic instrumentation are supplied through the build overlay and carry //go:build verif; nothing is committed to /repo)",
        "baseline_off_cmd": base["cmd"] if base else old["hooks"]["baseline_off_cmd"],
        "source_commits": [],
        "add_only": True,
    },
    "engines": json.load(open(os.path.join(V, "engines.json"))) if os.path.exists(os.path.join(V, "engines.json")) else [],
    "checks": [],
    "not_applicable": [],
    "notes": "See DESIGN.md. Every check is a bounded exhaustive exploration of the real code; evidence/<id>.json is rewritten by each run.",
}
claimed = set(json.load(open(os.path.join(V, "claimed.json"))))
for pid in props:
    if pid in checks and pid in claimed:
        c = checks[pid]
        e = {
            "property_id": pid,
            "quick_cmd": "./vx check %s --tier quick" % pid,
            "thorough_cmd": "./vx check %s --tier thorough" % pid,
            "evidence_file": "evidence/%s.json" % pid,
            "replay_cmd_template": "./vx replay {path}",
            "engine": c.get("engine", ""),
            "level_claimed": {"category": c.get("level", "model_checking"), "text": c.get("level_text", ""), "design_ref": c.get("design_ref", "DESIGN.md section 6, " + pid)},
            "level_note": c.get("level_note", ""),
            "technique": c.get("technique", ""),
        }
        m["checks"].append(e)
    else:
        m["not_applicable"].append({"property_id": pid, "reason": na.get(pid, "check not built yet (work in progress; DESIGN.md section 6 has the plan)")})
json.dump(m, open(os.path.join(V, "MANIFEST.json"), "w"), indent=1)
print("claimed", len(m["checks"]), "not_applicable", len(m["not_applicable"]))
