#!/usr/bin/env python3
"""Applies every /verif/mutants/<ID>-*.patch (or the given ones) through the build overlay (never
touching /repo), runs the quick tier of check <ID> and records whether it reported a violation.
usage: tools/selftest.py [ID ...]     results -> /verif/mutants/RESULTS.json"""
import glob, json, os, re, shutil, subprocess, sys, tempfile, time
V = os.path.dirname(os.path.dirname(os.path.abspath(__file__)))
REPO = "/repo"
want = set(sys.argv[1:])
res_path = os.path.join(V, "mutants", "RESULTS.json")
results = json.load(open(res_path)) if os.path.exists(res_path) else {}
for patch in sorted(glob.glob(os.path.join(V, "mutants", "*.patch"))):
    name = os.path.basename(patch)[:-6]
    cid = name.split("-")[0]
    if want and cid not in want and name not in want:
        continue
    work = tempfile.mkdtemp(prefix="selftest-", dir=os.path.join(V, "build"))
    try:
        files = []
        for line in open(patch, errors="replace"):
            m = re.match(r"^\+\+\+ (?:b/)?(\S+)", line)
            if m and m.group(1) != "/dev/null":
                files.append(m.group(1))
        ov = {}
        ok = True
        for f in files:
            dst = os.path.join(work, f)
            os.makedirs(os.path.dirname(dst), exist_ok=True)
            shutil.copy(os.path.join(REPO, f), dst)
            ov[f] = dst
        r = subprocess.run(["patch", "-p1", "-s", "-d", work, "-i", patch], capture_output=True, text=True)
        if r.returncode != 0:
            results[name] = {"check": cid, "status": "patch-does-not-apply", "detail": (r.stdout + r.stderr)[-300:]}
            print(name, "PATCH FAILED")
            continue
        ovp = os.path.join(work, "ov.json")
        json.dump(ov, open(ovp, "w"))
        env = dict(os.environ, VERIF_EXTRA_OVERLAY=ovp, VERIF_REPLAYS=os.path.join(work, "replays"), VERIF_EVIDENCE_DIR=os.path.join(work, "evidence"))
        t0 = time.time()
        r = subprocess.run([os.path.join(V, "vx"), "check", cid, "--tier", "quick"], env=env, capture_output=True, text=True, cwd=V)
        out = r.stdout + r.stderr
        classes = sorted(set(re.findall(r"class=(\S+)", out)))
        status = "caught" if r.returncode == 1 and "VIOLATION property=" in out else ("build-failed" if r.returncode == 2 else "MISSED")
        results[name] = {"check": cid, "status": status, "classes": classes[:6], "wall_s": round(time.time() - t0, 1)}
        print(name, status, classes[:3], flush=True)
    finally:
        shutil.rmtree(work, ignore_errors=True)
        # the evidence file was rewritten by a mutated run; it is restored by the next real run
    json.dump(results, open(res_path, "w"), indent=1, sort_keys=True)
