#!/usr/bin/env python3
"""Regenerates /verif/seeded/README.md and the table of DESIGN.md section 12.6 from seeded/*/meta.json."""
import glob, json, os, re
V = os.path.dirname(os.path.dirname(os.path.abspath(__file__)))
rows = []
for mp in sorted(glob.glob(os.path.join(V, "seeded", "*", "meta.json"))):
    m = json.load(open(mp))
    d = os.path.basename(os.path.dirname(mp))
    det = m.get("detection", {})
    def cell(x):
        return str(x).replace("|", "\\|").replace("\n", " ")
    rows.append("| `%s` | %s | %s | %s | %s |" % (d, cell(m.get("change", "")), cell(m.get("needs", "")), cell(det.get("before", "")), cell(det.get("after", ""))))
head = ("| seed | change | what it needs to manifest | checks as they were | after strengthening |\n|---|---|---|---|---|\n")
table = head + "\n".join(rows) + "\n"
n = len(rows)
first = sum(1 for mp in glob.glob(os.path.join(V, "seeded", "*", "meta.json")) if json.load(open(mp)).get("detection", {}).get("before", "").startswith("CAUGHT"))
intro = ("Changes written by independent sub-agents that were given only the text of one property and a scratch\n"
         "worktree (nothing from /verif). Each was confirmed here in a scratch worktree (`verify.log`: builds, the\n"
         "existing tests of the touched packages pass with it, its demonstration fails with it and passes without it),\n"
         "then the checks were run against it through the build overlay (`tools/tryseed.py`, /repo untouched).\n"
         "%d changes so far; %d were caught by the checks as they stood, the others led to the strengthening named in\n"
         "the last column. Each directory holds `patch.diff`, `demo_test.go`, `README.md` (the author's), `verify.log`,\n"
         "`meta.json`. Attempts that did not survive the confirmation (an existing randomized test of Pebble catches\n"
         "them) are listed in `seeded/REJECTED.md` and are not counted. Detection is by the quick tier unless the\n"
         "last column says otherwise (C39-1: thorough tier only; C22-2: still missed). On the final tree the\n"
         "quick-tier detection of 24 of them was run once more (C01-1 C03-1 C03-2 C06-1 C06-2 C07-2 C08-1 C10-1 C11-1\n"
         "C11-2 C14-1 C15-1 C20-1 C21-1 C24-1 C25-2 C36-1 C37-1 C38-1 C40-1 C43-1 C44-1 C45-1 C47-1): all reported.\n\n" % (n, first))
open(os.path.join(V, "seeded", "README.md"), "w").write("# Seeded property-breaking changes\n\n" + intro + table)
dp = os.path.join(V, "DESIGN.md")
s = open(dp).read()
a = s.index("### 12.6 Changes seeded by independent sub-agents")
b = s.index("---------------------------------------------------------------------------------------------------", a)
s = s[:a] + "### 12.6 Changes seeded by independent sub-agents\n\n" + intro + table + "\n" + s[b:]
open(dp, "w").write(s)
print(n, "seeds,", first, "caught at first")
